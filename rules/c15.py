"""C15 -- stored and exported results are the simulated values, complete and labelled.

Decided: channel order (t, x, y, z) agrees at every writer/reader site; stored rows are copies keyed by a plain float
time; one Output index set is produced once and consumed unchanged by storage, names and address translation; store
control flow (accepted steps only, thinning, off-loading pointer). Value equality file<->memory at runtime is declined."""
import ast

from engine import astq as Q
from engine.cfg import walk_noscope
from engine.pysrc import Repo, F, dotted, src, calls_in
from engine.effects import Effects, fmt as fmt_effect
from engine import alpha
from rules import tdscommon
from engine.report import AnalysisError

DAE = "andes/variables/dae.py"
TDS = "andes/routines/tds.py"
SYSTEM = "andes/system.py"
OUTPUT = "andes/models/misc/output.py"
PLOT = "andes/plot.py"


def rule_channel_order(ctx, repo):
    u = F.method(repo, "DAETimeSeries", "unpack_np", DAE)
    # the column order, whatever stacking function spells it: hstack / column_stack / concatenate(axis=1) of (t as a column, x, y, z)
    ok = False
    for st_ in walk_noscope(u.fn):
        if isinstance(st_, ast.Assign) and dotted(st_.targets[0]) == "self.txyz" and isinstance(st_.value, ast.Call) and st_.value.args:
            fname = (dotted(st_.value.func) or "").split(".")[-1]
            seq = st_.value.args[0]
            axis_ok = fname in ("hstack", "column_stack") or (fname == "concatenate" and any(
                k.arg == "axis" and isinstance(k.value, ast.Constant) and k.value.value in (1, -1) for k in st_.value.keywords))
            if axis_ok and isinstance(seq, (ast.Tuple, ast.List)) and len(seq.elts) == 4:
                names = [src(e_) for e_ in seq.elts]
                ok = names[0].startswith("self.t") and names[1:] == ["self.x", "self.y", "self.z"]
    ctx.check(ok, "C15.order", "unpack_np/txyz", "txyz = [t | x | y | z]", "column order of the exported matrix is not t, x, y, z", u.W())
    # the time axis is built from the keys of a stored-row dict (`d.keys()` or iteration over the dict itself), whatever constructor wraps it
    ok = False
    for st_ in walk_noscope(u.fn):
        if isinstance(st_, ast.Assign) and dotted(st_.targets[0]) == "self.t":
            for x in ast.walk(st_.value):
                d_ = dotted(x) if isinstance(x, ast.Attribute) else None
                if d_ in ("self._xs", "self._ys", "self._zs"):
                    keys = [c_ for c_ in ast.walk(st_.value) if isinstance(c_, ast.Call) and isinstance(c_.func, ast.Attribute)
                            and c_.func.value is x and c_.func.attr == "keys"]
                    iterated = [c_ for c_ in ast.walk(st_.value) if (isinstance(c_, ast.Call) and c_.args and c_.args[0] is x and
                                (dotted(c_.func) or "").split(".")[-1] in ("list", "tuple", "fromiter", "sorted"))
                                or (isinstance(c_, ast.comprehension) and c_.iter is x)]
                    if keys or iterated:
                        ok = True
    ctx.check(ok, "C15.order", "unpack_np/t", "time axis = keys of the stored rows", "time axis no longer taken from the stored row keys", u.W())
    pairs = None
    for n in walk_noscope(u.fn):
        if isinstance(n, ast.Assign) and dotted(n.targets[0]) == "pairs":
            pairs = ast.literal_eval(n.value)
    want = {("_xs", "x"), ("_ys", "y"), ("_zs", "z")}
    ctx.check(pairs is not None and want <= set(pairs), "C15.order", "unpack_np/pairs", "_xs->x, _ys->y, _zs->z",
              "dict-to-array pairing changed: %s" % (pairs,), u.W())
    # row i of the array is the i-th stored row: `<array>[i, :] = v` inside `for i, v in enumerate(<storage>.values())`, wherever that loop
    # lives (nested helper, method, or inlined)
    ok = False
    scopes = [u.fn] + [n for n in ast.walk(u.fn) if isinstance(n, ast.FunctionDef) and n is not u.fn]
    for c_ in calls_in(u.fn):
        d_ = dotted(c_.func) or ""
        if d_.startswith("self.") and d_.count(".") == 1 and repo.has_method("DAETimeSeries", d_[5:], DAE):
            scopes.append(repo.method("DAETimeSeries", d_[5:], DAE)[1])
    for sc in scopes:
        for l in ast.walk(sc):
            if isinstance(l, ast.For) and isinstance(l.iter, ast.Call) and dotted(l.iter.func) == "enumerate" and l.iter.args and \
                    isinstance(l.iter.args[0], ast.Call) and isinstance(l.iter.args[0].func, ast.Attribute) and l.iter.args[0].func.attr == "values" \
                    and isinstance(l.target, ast.Tuple) and len(l.target.elts) == 2:
                i_, v_ = src(l.target.elts[0]), src(l.target.elts[1])
                for st_ in ast.walk(l):
                    if isinstance(st_, ast.Assign) and isinstance(st_.targets[0], ast.Subscript) and isinstance(st_.targets[0].slice, ast.Tuple) \
                            and src(st_.targets[0].slice.elts[0]) == i_ and src(st_.value) == v_:
                        ok = True
    ctx.check(ok, "C15.order", "unpack_np/rows", "row i of the array = i-th stored row (insertion order)",
              "rows of the unpacked array no longer follow the storage order", u.W())
    w = F.method(repo, "DAE", "write_lst", DAE)
    ok = Q.has("uname = self.x_name_output + self.y_name_output + self.z_name", w.fn) and Q.has("uname = self.xyz_name", w.fn)
    ctx.check(ok, "C15.order", "DAE.write_lst", "labels listed as x names, y names, z names after the time header",
              "lst label order differs from the data column order", w.W())
    hd = Q.has("out += template.format(0, 'Time [s]', 'Time [s]')", w.fn)
    ctx.check(hd, "C15.order", "DAE.write_lst/time-header", "column 0 is time", "time header dropped from the lst file", w.W())
    p = F.method(repo, "TDSData", "load_dae", PLOT)
    ok = Q.has("self._uname = ['Time [s]'] + dae.x_name_output + dae.y_name_output + dae.z_name", p.fn) and Q.has("self._data = dae.ts.txyz", p.fn)
    ctx.check(ok, "C15.order", "TDSData.load_dae", "in-memory loader: names [t, x, y, z] with data txyz", "plot loader label order differs from txyz", p.W())
    for prop, pat in (("xyz_name", "self.x_name + self.y_name + self.z_name"), ("xy_name", "self.x_name + self.y_name")):
        ci, fn = repo.method("DAE", prop, DAE)
        ctx.check(Q.has("return " + pat, fn), "C15.order", "DAE.%s" % prop, pat, "%s is no longer %s" % (prop, pat), repo.W(ci, fn))
    c = F.method(repo, "TDS", "_csv_data_to_dae", TDS)
    ok = Q.has("system.dae.x[:] = self.data_csv[self.k_csv, 1:system.dae.n + 1]", c.fn) and \
        Q.has("system.dae.y[:] = self.data_csv[self.k_csv, system.dae.n + 1:system.dae.n + system.dae.m + 1]", c.fn)
    ok2 = Q.has("system.dae.x[xidx] = self.data_csv[self.k_csv, 1:len(xidx) + 1]", c.fn) and \
        Q.has("system.dae.y[yidx] = self.data_csv[self.k_csv, len(xidx) + 1:len(xidx) + len(yidx) + 1]", c.fn)
    ctx.check(ok and ok2, "C15.order", "TDS._csv_data_to_dae", "csv replay slices: col 0 = t, then x block, then y block (full and selected)",
              "csv replay column slices do not match the t|x|y layout of the export", c.W())
    w = F.method(repo, "DAE", "write_npz", DAE)
    ok = all("txyz" in src(c_.keywords[0].value) or "data" == src(c_.keywords[0].value) for c_ in calls_in(w.fn)
             if dotted(c_.func) == "np.savez_compressed" and c_.keywords)
    ctx.check(ok, "C15.order", "DAE.write_npz", "file payload is the txyz matrix", "npz payload is not the txyz matrix", w.W())


def rule_copy(ctx, repo):
    s = F.method(repo, "DAE", "store", DAE)
    fn = s.fn
    # a Python scalar taken from the time array: .tolist() / .item() / float(...)
    ok = any(Q.has(pt, fn) for pt in ("t = self.t.tolist()", "t = self.t.item()", "t = float(self.t)", "t = float(self.t.item())", "t = float(self.t.tolist())"))
    ctx.check(ok, "C15.copy", "DAE.store/key", "row key is a Python float copy of the time (not the live array)",
              "rows are keyed by the live dae.t array object", s.W())
    bad = []
    n = 0
    for a in walk_noscope(fn):
        if isinstance(a, ast.Assign) and isinstance(a.targets[0], ast.Subscript) and (dotted(a.targets[0].value) or "").startswith(alpha.resolve_dotted("ts._", fn)):
            n += 1
            v = a.value
            fresh = (isinstance(v, ast.Call) and dotted(v.func) in ("np.array", "np.copy")) or \
                (isinstance(v, ast.Call) and isinstance(v.func, ast.Attribute) and v.func.attr == "copy") or \
                (isinstance(v, ast.Subscript) and not isinstance(v.slice, ast.Slice))      # fancy index -> new array
            if not fresh:
                bad.append(src(a))
            if src(a.targets[0].slice) != "t":
                bad.append("%s is not keyed by t" % src(a))
    ctx.check(n >= 4 and not bad, "C15.copy", "DAE.store/rows", "%d stored rows are fresh arrays keyed by t" % n,
              "stored row aliases live solver memory (later steps would rewrite history): %s" % bad, s.W())
    # channel -> storage pairing
    pair = {alpha.resolve_dotted(k_, fn): v_ for k_, v_ in
            {"ts._xs": "self.x", "ts._ys": "self.y", "ts._fs": "self.f", "ts._hs": "self.h", "ts._is": "self.i"}.items()}
    bad = []
    for a in walk_noscope(fn):
        if isinstance(a, ast.Assign) and isinstance(a.targets[0], ast.Subscript):
            d = dotted(a.targets[0].value)
            if d in pair and pair[d] not in src(a.value):
                bad.append(src(a))
    ctx.check(not bad, "C15.copy", "DAE.store/channels", "x -> _xs, y -> _ys, f -> _fs, h -> _hs, i -> _is", "channel stored under the wrong key: %s" % bad, s.W())
    ok = Q.has("ts._xs[t] = self.x[system.Output.xidx]", fn) and Q.has("ts._ys[t] = self.y[system.Output.yidx]", fn)
    ctx.check(ok, "C15.copy", "DAE.store/selection", "selected output uses Output.xidx / Output.yidx", "selected storage no longer indexes with Output.xidx/yidx", s.W())


def rule_index_set(ctx, repo):
    f = F.method(repo, "System", "set_output_subidx", SYSTEM)
    # sorted and duplicate-free, whatever spells it (np.unique sorts)
    forms = ("sorted(np.unique(export_vars['%s']))", "np.unique(export_vars['%s']).tolist()", "list(np.unique(export_vars['%s']))",
             "sorted(set(export_vars['%s']))", "np.unique(export_vars['%s'])")
    ok = all(any(Q.has(("self.Output.%sidx = " % c_) + (fm % c_), f.fn) for fm in forms) for c_ in ("x", "y"))
    ctx.check(ok, "C15.index", "System.set_output_subidx", "xidx/yidx = sorted unique addresses collected by v_code",
              "Output index sets are no longer the sorted unique addresses", f.W())
    ok = Q.has("export_vars[$item.v_code].extend($item.a)", f.fn) and Q.has("export_vars[$item.v_code].append($item.a[$uid])", f.fn) and \
        Q.has("$uid = $m.idx2uid(dev)", f.fn)
    ctx.check(ok, "C15.index", "System.set_output_subidx/collect", "addresses taken from item.a (all or the device's uid) under the item's own v_code",
              "selected addresses no longer come from item.a[idx2uid(dev)] under item.v_code", f.W())
    # the only writers of Output.xidx / yidx
    writers = []
    for rel, mod in repo.modules.items():
        for n in ast.walk(mod):
            if isinstance(n, (ast.Assign, ast.AugAssign)):
                for t in (n.targets if isinstance(n, ast.Assign) else [n.target]):
                    d = dotted(t) or ""
                    if d.endswith("Output.xidx") or d.endswith("Output.yidx") or (rel == OUTPUT and d in ("self.xidx", "self.yidx")):
                        writers.append((rel, n.lineno))
    extra = [w for w in writers if not (w[0] == SYSTEM or w[0] == OUTPUT)]
    in_sys = [w for w in writers if w[0] == SYSTEM]
    ctx.check(not extra and len(in_sys) == 2, "C15.index", "Output.xidx/yidx writers", "written once (set_output_subidx) + constructor default",
              "additional writers of the Output index sets: %s" % (extra or in_sys), OUTPUT)
    # consumers use them unchanged
    for prop, arr in (("x_name_output", "x_name"), ("y_name_output", "y_name"), ("x_tex_name_output", "x_tex_name"), ("y_tex_name_output", "y_tex_name")):
        ci, fn = repo.method("DAE", prop, DAE)
        ix = "xidx" if prop.startswith("x") else "yidx"
        ok = Q.has("return [self.%s[$i] for $i in self.system.Output.%s]" % (arr, ix), fn) and Q.has("return self.%s" % arr, fn)
        ctx.check(ok, "C15.index", "DAE.%s" % prop, "names[k] = %s[Output.%s[k]] (same order as the stored columns)" % (arr, ix),
                  "output names no longer follow Output.%s in order" % ix, repo.W(ci, fn))
    # the address translation itself (order, shared addresses, sub-indices) is decided by evaluation: rules/c15_outaddr.py (the first version
    # of this rule had frozen `np.where(np.isin(xidx, addr))`, which is the defect: ascending-address order with duplicates merged)
    gd = F.method(repo, "DAETimeSeries", "get_data", DAE)
    ok = any(isinstance(c, ast.Call) and isinstance(c.func, ast.Attribute) and c.func.attr == "to_output_addr" for c in ast.walk(gd.fn))
    ctx.check(ok, "C15.index", "DAETimeSeries.get_data", "queries translate addresses through Output when a selection is active",
              "get_data no longer translates addresses for selected output", gd.W())


def rule_store_flow(ctx, repo):
    r = F.method(repo, "TDS", "run", TDS)
    g = r.g
    st = r.tests(lambda c: c.strip() == "step_status")
    stores = r.calls("dae.store")
    if not st:
        if not r.calls("self.itm_step"):
            raise AnalysisError("TDS.run: step call vanished")
        ctx.violation("C15.flow", "TDS.run/store-accepted", "dae.store() is no longer conditional on the step status: rows are stored for "
                      "rejected steps too", r.W(stores[0]) if stores else r.W())
        return
    ok = bool(stores) and all(g.guarded_by(n, st[0], "true") for n in stores)
    ctx.check(ok, "C15.flow", "TDS.run/store-accepted", "one row per accepted step only", "rows stored for rejected steps (or none stored)", r.W())
    # nothing that writes the solver state may run between the step's acceptance and the store of its row
    E = Effects(repo)
    steps = r.calls("self.itm_step")
    heads0 = [n for n in g.nodes() if g.data(n)["kind"] == "loop"]
    n_between, bad = 0, []
    for s0 in steps:
        for sn in stores:
            for n in g.nodes():
                if n in (s0, sn) or n in heads0 or g.data(n).get("ast") is None:
                    continue
                if g.reachable(s0, n, avoid=heads0) and g.reachable(n, sn, avoid=heads0):
                    a = g.data(n)["ast"]
                    exprs = [a.test] if g.data(n)["kind"] == "test" and hasattr(a, "test") else [a]
                    for e in exprs:
                        for c in [x for x in ast.walk(e) if isinstance(x, ast.Call)]:
                            n_between += 1
                            ws = [w for w in E.call_writes(r.ci, r.fn, c) if w[2] in ("dae.x", "dae.y", "dae.t", "<var>.v")]
                            if ws:
                                bad.append((n, "`%s` runs between the accepted step and dae.store(): %s" % (src(c), fmt_effect(ws[0]))))
    ctx.check(not bad, "C15.flow", "TDS.run/pre-store-effects", "%d call(s) between step acceptance and dae.store(), none writes x/y/t "
              "(resolved %d callee edges)" % (n_between, E.resolved_calls),
              "; ".join(sorted(set(b[1] for b in bad))[:3]) + " -- the stored row is not what the solver held", r.W(bad[0][0]) if bad else r.W())
    # thinning, decided by evaluation: the condition under which some dae.store() of the accepted-step branch executes is computed from
    # the enclosing tests (any nesting / boolean form) and compared with the documented meaning of save_every on a grid of values
    from engine.ordertype import Interp, Unsupported
    loop_w = [l for l in ast.walk(r.fn) if isinstance(l, ast.While)]
    acc = [t_ for t_ in ast.walk(r.fn) if isinstance(t_, ast.If) and Q.match("step_status", t_.test) is not None]
    store_stmts = [x for x in ast.walk(r.fn) if isinstance(x, ast.Expr) and isinstance(x.value, ast.Call) and (dotted(x.value.func) or "").endswith("dae.store")]
    bad_t, undec_t, n_pts = [], None, 0
    if not acc or not store_stmts:
        undec_t = "accepted-step branch or store call not recognised"
    else:
        conds = [Q.path_condition(acc[0], x) for x in store_stmts]
        conds = [c_ for c_ in conds if c_ is not None]
        if not conds:
            undec_t = "store call outside the accepted-step branch"
        for se in (0, 1, 2, 3, 5):
            for kc_ in range(0, 7):
                env = {"self.config.save_every": se, "config.save_every": se, "self.system.dae.kcount": kc_, "dae.kcount": kc_, "step_status": True}
                try:
                    n_exec = 0
                    for chain in conds:
                        ok_ = True
                        for test, pol in chain[1:] if chain and chain[0][0] is acc[0].test else chain:
                            ok_ = ok_ and (bool(Interp(env).ev(test)) == pol)
                        n_exec += 1 if ok_ else 0
                except (Unsupported, ZeroDivisionError) as ex:
                    if isinstance(ex, ZeroDivisionError):
                        bad_t.append("save_every=%d, step %d: the guard divides by zero" % (se, kc_))
                        continue
                    undec_t = "front-end: %s" % ex
                    break
                n_pts += 1
                want = 1 if (se != 0 and (se == 1 or kc_ % se == 0)) else 0
                if n_exec != want:
                    bad_t.append("save_every=%d, step %d: %d row(s) stored, expected %d" % (se, kc_, n_exec, want))
            if undec_t:
                break
    if undec_t:
        ctx.undecided("C15.flow", "TDS.run/thinning", undec_t, r.W())
    else:
        ctx.check(not bad_t, "C15.flow", "TDS.run/thinning", "save_every: 0 none, 1 all, k every k-th step (%d points evaluated)" % n_pts,
                  "; ".join(bad_t[:3]), r.W())
    kc = [n for n in g.nodes() if g.data(n)["kind"] == "stmt" and Q.match("dae.kcount += 1", g.data(n)["ast"]) and g.guarded_by(n, st[0], "true")]
    ctx.check(bool(kc), "C15.flow", "TDS.run/kcount", "step counter advanced once per accepted step", "kcount no longer advanced per accepted step", r.W())
    # offload: the chunk is written (unless output is disabled) exactly when the memory is cleared, and before it
    so_st = [x for x in ast.walk(r.fn) if isinstance(x, ast.Expr) and isinstance(x.value, ast.Call) and dotted(x.value.func) == "self.save_output"]
    rs_st = [x for x in ast.walk(r.fn) if isinstance(x, ast.Expr) and isinstance(x.value, ast.Call) and (dotted(x.value.func) or "").endswith("dae.ts.reset")]
    so_in = [x for x in so_st if acc and Q.path_condition(acc[0], x) is not None]
    bad_o, undec_o = [], None
    if not so_in or not rs_st or not acc:
        undec_o = "off-load block (save_output / ts.reset in the accepted-step branch) not recognised"
    else:
        cw = Q.path_condition(acc[0], so_in[0])[1:]
        cr = Q.path_condition(acc[0], rs_st[0])
        cr = cr[1:] if cr else None
        if cr is None:
            undec_o = "ts.reset outside the accepted-step branch"
        else:
            class _Len:
                def __init__(self, n):
                    self.n = n
            for lim in (0, 1):
                for nrows in (0, 2, 3, 5):
                    for noout in (False, True):
                        env = {"self.config.limit_store": lim, "config.limit_store": lim, "self.config.max_store": 3, "config.max_store": 3,
                               "self.system.files.no_output": noout, "system.files.no_output": noout}
                        funcs = {"len": lambda a_: nrows}
                        env["self.system.dae.ts._ys"] = 0
                        env["dae.ts._ys"] = 0
                        try:
                            w_ = all(bool(Interp(env, funcs).ev(t_)) == pol for t_, pol in cw)
                            r_ = all(bool(Interp(env, funcs).ev(t_)) == pol for t_, pol in cr)
                        except Unsupported as ex:
                            undec_o = "front-end: %s" % ex
                            break
                        want_r = bool(lim) and nrows >= 3
                        want_w = want_r and not noout
                        if r_ != want_r or w_ != want_w:
                            bad_o.append("limit_store=%d, %d rows, no_output=%s: write=%s clear=%s, expected write=%s clear=%s" % (
                                lim, nrows, noout, w_, r_, want_w, want_r))
            son = [n for n in g.nodes() if g.data(n)["kind"] == "stmt" and g.data(n)["ast"] is so_in[0]]
            rsn = [n for n in g.nodes() if g.data(n)["kind"] == "stmt" and g.data(n)["ast"] is rs_st[0]]
            heads = [n for n in g.nodes() if g.data(n)["kind"] == "loop"]
            if son and rsn and g.reachable(rsn[0], son[0], avoid=heads):
                bad_o.append("the in-memory series is cleared before the chunk is written")
    if undec_o:
        ctx.undecided("C15.flow", "TDS.run/offload", undec_o, r.W())
    else:
        ctx.check(not bad_o, "C15.flow", "TDS.run/offload", "chunk written (unless output is off) exactly when, and before, the in-memory series is cleared",
                  "; ".join(bad_o[:3]), r.W())
    s = F.method(repo, "TDS", "save_output", TDS)
    ok = any(isinstance(st_, ast.Assign) and dotted(st_.targets[0]) == "self.system.dae.ts.idx_ptr" and Q.length_of(st_.value) is not None
             and src(Q.length_of(st_.value)) == "self.system.dae.ts.t" for st_ in walk_noscope(s.fn))
    ctx.check(ok, "C15.flow", "TDS.save_output/pointer", "write pointer advanced after every write", "idx_ptr not updated after writing", s.W())
    rr = F.method(repo, "DAETimeSeries", "reset", DAE)
    ok = Q.has("self.idx_ptr = 0", rr.fn) and all(any(isinstance(st_, ast.Assign) and dotted(st_.targets[0]) == "self.%s" % k and Q.is_empty_mapping(st_.value)
                                                       for st_ in walk_noscope(rr.fn)) for k in ("_xs", "_ys", "_zs"))
    ctx.check(ok, "C15.flow", "DAETimeSeries.reset", "storage and pointer cleared together", "reset leaves the write pointer or part of the storage", rr.W())
    w = F.method(repo, "DAE", "write_npz", DAE)
    part = [st_ for st_ in walk_noscope(w.fn) if isinstance(st_, ast.Assign) and dotted(st_.targets[0]) == "txyz_data"
            and isinstance(st_.value, ast.Subscript)]
    ok = bool(part) and all(Q.rows_from(st_.value) is not None and [src(x_).replace("self.ts.", "ts.") for x_ in Q.rows_from(st_.value)]
                            == ["ts.txyz", "ts.idx_ptr"] for st_ in part) and Q.has("data = np.vstack((data, txyz_data))", w.fn)
    ctx.check(ok, "C15.flow", "DAE.write_npz/append", "incremental write appends rows from idx_ptr on", "incremental write no longer appends exactly the new rows", w.W())


def rule_fresh_view(ctx, repo):
    """`ts.txyz` (and t, x, y, z) are unpacked lazily on their FIRST access only (DAETimeSeries.__getattr__); afterwards they are cached
    attributes.  A reader that can run when the attribute already exists must refresh it itself: on the chunked off-load path
    (TDS.run -> save_output -> DAE.write_npz under limit_store) nobody else unpacks, so every read of `ts.txyz` there is dominated by an
    unrestricted `ts.unpack()` in write_npz.  Also: header and body of the csv export are built from the same index list."""
    w = F.method(repo, "DAE", "write_npz", DAE)
    g = w.g
    lim = [tn for tn in g.nodes() if g.data(tn)["kind"] == "test" and "limit_store" in src(g.data(tn)["ast"].test)]
    if not lim:
        ctx.undecided("C15.fresh", "DAE.write_npz", "limit_store branch not recognised", w.W())
    else:
        neg = src(g.data(lim[0])["ast"].test).strip().startswith("not")
        lab = "false" if neg else "true"
        reads = []
        for n in g.nodes():
            a = g.data(n).get("ast")
            if a is None or g.data(n)["kind"] != "stmt" or not g.guarded_by(n, lim[0], lab):
                continue
            if any(isinstance(x, ast.Attribute) and x.attr == "txyz" and isinstance(x.ctx, ast.Load) for x in ast.walk(a)):
                reads.append(n)
        full = []
        for n in g.nodes():
            a = g.data(n).get("ast")
            if g.data(n)["kind"] != "stmt" or a is None:
                continue
            for c in [x for x in ast.walk(a) if isinstance(x, ast.Call)]:
                if (dotted(c.func) or "").endswith("ts.unpack") and not any(k.arg == "attr" for k in c.keywords) and len(c.args) < 2:
                    full.append(n)
        for k, rd in enumerate(reads):
            ok = g.must_pass(g.entry, rd, full)[0] if full else False
            ctx.check(ok, "C15.fresh", "DAE.write_npz/chunk-read#%d" % k, "the chunk is cut from a view refreshed in this call",
                      "`%s` reads the cached ts.txyz without an unrestricted ts.unpack() before it: when the attribute already exists (resumed "
                      "run, or a restricted unpack) the rows in memory are not the rows written" % src(g.data(rd)["ast"]), w.W(rd))
    # the dataframe views are cached attributes too: unpack() either rebuilds them or drops them (so that __getattr__ rebuilds them)
    ts_u = F.method(repo, "DAETimeSeries", "unpack", DAE)
    ts_d = F.method(repo, "DAETimeSeries", "unpack_df", DAE)
    dfs = sorted({dotted(t)[5:] for st in walk_noscope(ts_d.fn) if isinstance(st, ast.Assign) for t in st.targets
                  if (dotted(t) or "").startswith("self.df")})
    if not dfs:
        ctx.undecided("C15.fresh", "DAETimeSeries.unpack/dataframes", "cached dataframe attributes not recognised", ts_d.W())
    else:
        gu = ts_u.g
        rebuild = ts_u.calls("self.unpack_df")
        dropped = set()
        for st in ast.walk(ts_u.fn):
            if isinstance(st, ast.For) and isinstance(st.iter, (ast.Tuple, ast.List)) and any(
                    isinstance(c, ast.Call) and (dotted(c.func) or "").endswith("__dict__.pop") for c in ast.walk(st)):
                dropped |= {e.value for e in st.iter.elts if isinstance(e, ast.Constant)}
            if isinstance(st, ast.Delete):
                dropped |= {dotted(t)[5:] for t in st.targets if (dotted(t) or "").startswith("self.")}
        always = bool(rebuild) and gu.must_pass(gu.entry, gu.exit, rebuild)[0]
        missing = [d_ for d_ in dfs if d_ not in dropped]
        ctx.check(always or not missing, "C15.fresh", "DAETimeSeries.unpack/dataframes", "cached dataframes (%s) rebuilt or dropped by every unpack()" % ", ".join(dfs),
                  "unpack(df=False) refreshes the arrays and leaves the cached dataframe(s) %s untouched: after a resumed run or an off-load "
                  "`ts.df`, `ts.df_xy` ... still show the rows of the earlier unpack" % ", ".join(missing), ts_u.W())
    # csv export: one index list for header and body
    e = F.method(repo, "TDSData", "export_csv", PLOT)
    ge = e.g
    hdr = [n for n in ge.nodes() if ge.data(n)["kind"] == "stmt" and any(isinstance(c, ast.Call) and (dotted(c.func) or "").endswith("get_header")
                                                                        for c in ast.walk(ge.data(n)["ast"]))]
    body = [n for n in ge.nodes() if ge.data(n)["kind"] == "stmt" and any(isinstance(c, ast.Call) and (dotted(c.func) or "").endswith("get_values")
                                                                         for c in ast.walk(ge.data(n)["ast"]))]
    if not hdr or not body:
        ctx.undecided("C15.fresh", "TDSData.export_csv", "header/body construction not recognised", e.W())
    else:
        def arg_name(n, fname):
            for c in ast.walk(ge.data(n)["ast"]):
                if isinstance(c, ast.Call) and (dotted(c.func) or "").endswith(fname) and c.args:
                    return dotted(c.args[0])
        hn, bn = arg_name(hdr[0], "get_header"), arg_name(body[0], "get_values")
        rew = [n for n in e.assigns(bn) if ge.reachable(hdr[0], n) and ge.reachable(n, body[0])] if bn else []
        ctx.check(hn == bn and not rew, "C15.fresh", "TDSData.export_csv/index-list", "labels and values are selected by the same index list",
                  "the index list is %s between the header and the body: columns end up under the labels of other variables" % (
                      "re-bound (`%s`)" % src(ge.data(rew[0])["ast"]) if rew else "not the same variable (%s vs %s)" % (hn, bn)), e.W(rew[0]) if rew else e.W())


def rule_replay(ctx, repo):
    """csv replay: the row pointer and the clock advance together.  calc_h (csv mode) moves k_csv to the next row and sets
    h = time(row) - t, so `data_csv[k_csv, 0] == dae.t` -- the invariant under which _csv_data_to_dae loads the row OF the current
    time -- is restored only by `dae.t += self.h`.  Every call of calc_h is therefore followed, on every path to the function's
    exit, by the clock advance (or by an explicit re-synchronisation of k_csv)."""
    ch = F.method(repo, "TDS", "calc_h", TDS)
    adv = [n for n in walk_noscope(ch.fn) if isinstance(n, ast.AugAssign) and dotted(n.target) == "self.k_csv"]
    hdef = [n for n in walk_noscope(ch.fn) if isinstance(n, ast.Assign) and dotted(n.targets[0]) == "self.h" and "data_csv" in src(n.value)]
    if not adv:
        ctx.ok("C15.replay", "TDS.calc_h", "calc_h does not move the csv row pointer", ch.W(), nontrivial=False)
        return
    ok = bool(hdef) and Q.match("self.data_csv[self.k_csv, 0] - $s.dae.t", hdef[0].value) is not None
    ctx.check(ok, "C15.replay", "TDS.calc_h/step", "h = time of the row the pointer moved to - t",
              "replay step size is not the distance to the row the pointer moved to", ch.W(hdef[0]) if hdef else ch.W())
    n = 0
    for mname, fn in repo.cls("TDS", TDS).methods.items():
        calls = [c for c in calls_in(fn) if dotted(c.func) == "self.calc_h"]
        if not calls or mname == "calc_h":
            continue
        f = F.method(repo, "TDS", mname, TDS)
        cn = f.calls("self.calc_h", exact=True)
        tadv = tdscommon.clock_nodes(repo, f)
        resync = [x for x in f.g.nodes() if f.g.data(x)["kind"] == "stmt" and isinstance(f.g.data(x)["ast"], ast.Assign) and
                  dotted(f.g.data(x)["ast"].targets[0]) == "self.k_csv"]
        # paths that abort the simulation (busted) are followed by no further replay step
        abort = [x for x in f.g.nodes() if f.g.data(x)["kind"] == "stmt" and isinstance(f.g.data(x)["ast"], ast.Assign) and
                 dotted(f.g.data(x)["ast"].targets[0]) == "self.busted" and src(f.g.data(x)["ast"].value) == "True"]
        # the analysis is of replay mode: branches taken only when no csv is loaded are infeasible
        infeasible = []
        for tn in f.g.nodes():
            if f.g.data(tn)["kind"] == "test" and hasattr(f.g.data(tn)["ast"], "test"):
                tt = src(f.g.data(tn)["ast"].test)
                if tt == "self.data_csv is not None":
                    infeasible += [(tn, m) for m in f.g.succ_label(tn, "false")]
                elif tt == "self.data_csv is None":
                    infeasible += [(tn, m) for m in f.g.succ_label(tn, "true")]
        # in replay mode the stepping call is `_csv_step`; if it cannot fail (every return is a true constant), the rejected-step branch
        # of the loop is not taken in replay mode
        cs = repo.cls("TDS", TDS).methods.get("_csv_step")
        if cs is not None:
            rets = [x for x in walk_noscope(cs) if isinstance(x, ast.Return)]
            def always_true(r_):
                if isinstance(r_.value, ast.Constant) and r_.value.value is True:
                    return True
                # `self.converged = True; return self.converged` in a straight-line body
                tgt = dotted(r_.value)
                if tgt and not any(isinstance(x, (ast.If, ast.For, ast.While, ast.Try)) for x in cs.body):
                    asg = [x for x in cs.body if isinstance(x, ast.Assign) and any(dotted(t_) == tgt for t_ in x.targets)]
                    return bool(asg) and isinstance(asg[-1].value, ast.Constant) and asg[-1].value.value is True
                return False
            if rets and all(always_true(x) for x in rets):
                status = {t_.id for x in f.g.nodes() if f.g.data(x)["kind"] == "stmt" and isinstance(f.g.data(x)["ast"], ast.Assign)
                          and isinstance(f.g.data(x)["ast"].value, ast.Call) and dotted(f.g.data(x)["ast"].value.func) == "self._csv_step"
                          for t_ in f.g.data(x)["ast"].targets if isinstance(t_, ast.Name)}
                for tn in f.g.nodes():
                    dd = f.g.data(tn)
                    if dd["kind"] == "test" and dd["expr"] and isinstance(dd["expr"][0], ast.Name) and dd["expr"][0].id in status:
                        infeasible += [(tn, m) for m in f.g.succ_label(tn, "false")]
        for c in cn:
            n += 1
            if f.g.path(f.g.entry, c, avoid=(), avoid_edges=infeasible) is None:
                ctx.ok("C15.replay", "TDS.%s/calc_h@%d" % (mname, n), "call site not reachable in replay mode", f.W(c))
                continue
            ok, p = f.g.must_pass(c, f.g.exit, tadv + resync + abort, infeasible_edges=infeasible)
            ctx.check(ok, "C15.replay", "TDS.%s/calc_h@%d" % (mname, n), "pointer advance is followed by the clock advance (or a re-sync)",
                      "calc_h() moves the replay row pointer but `dae.t += self.h` does not follow on the path %s: the next _csv_step loads "
                      "the row of a LATER time under the current time (first row dropped, second row stored at t0)" % (f.g.fmt_path(p) if p else ""),
                      f.W(c))


def run(ctx):
    ctx.rule("C15.fresh", "cached views are refreshed by their readers on the off-load path / dropped by unpack(); header and body share the index list", 3)
    ctx.rule("C15.replay", "csv replay: row pointer and clock advance together at every calc_h call site", 3)
    ctx.rule("C15.order", "channel order t,x,y,z agrees at writer/reader sites (unpack, lst, npz, plot loader, csv replay)", 11)
    ctx.rule("C15.copy", "stored rows are fresh arrays keyed by a float copy of t; channels paired", 4)
    ctx.rule("C15.index", "Output.xidx/yidx produced once (sorted unique) and consumed unchanged by storage, names, address translation", 9)
    ctx.rule("C15.flow", "store only accepted steps; thinning; off-load writes then resets; pointers", 7)
    ctx.assume("value equality between files and memory at runtime is declined")
    repo = Repo()
    rule_channel_order(ctx, repo)
    rule_copy(ctx, repo)
    rule_index_set(ctx, repo)
    rule_store_flow(ctx, repo)
    rule_replay(ctx, repo)
    rule_fresh_view(ctx, repo)
    from rules import c15_outaddr, c15_presence
    c15_outaddr.run_rule(ctx, repo)
    c15_presence.run_rule(ctx, repo)
