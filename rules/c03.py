"""C03 -- Jacobians are the exact residual derivatives, stored at the right addresses."""
import ast

import sympy as sp

from engine import dsl, elab, tv
from engine.pysrc import Repo, F, dotted, norm, src, calls_in
from engine.cfg import walk_noscope
from engine import astq as Q
from rules.c02 import cmp_into, check_signature

MODEL = "andes/core/model/model.py"
SYSTEM = "andes/system.py"
DAE = "andes/variables/dae.py"
SYMPROC = "andes/core/symprocessor.py"
JN = ("fx", "fy", "gx", "gy")


def run_models(ctx, models, gens):
    stats = {}
    nfun = 0
    for name, m in models.items():
        try:
            mt = tv.ModelTV(name, m, gens[name])
        except dsl.DSLError as e:
            ctx.undecided("C03.entry", name, "front-end: %s" % e)
            continue
        gen = gens[name]
        T = gen.tables
        fl = tv.flags_of(m, mt.st)
        sx, sy, allv = mt.var_order()
        V = m.cache.all_vars
        # index convention: all_vars == states_and_ext + algebs_and_ext
        ctx.check(allv == sx + sy, "C03.order", name, "all_vars == states_and_ext + algebs_and_ext",
                  "column order all_vars %s is not states_and_ext+algebs_and_ext" % allv[:6], elab.locate(m, allv[0]) if allv else name,
                  ) if allv else None

        want = {}   # jname -> {(row, col): expr}
        try:
            for rows, ecode in ((sx, "f"), (sy, "g")):
                for ri, rn in enumerate(rows):
                    e = mt.eq(rn)
                    if e == 0:
                        continue
                    fs = e.free_symbols
                    for cj, cn in enumerate(allv):
                        s = mt.st.get(cn)
                        if s not in fs:
                            continue
                        d = sp.diff(e, s)
                        if d == 0:
                            continue
                        jn = V[rn].e_code + V[cn].v_code
                        want.setdefault(jn, {})[(ri, cj)] = (d, rn, cn)
        except dsl.DSLError as ex:
            ctx.undecided("C03.entry", name, str(ex))
            continue

        ijac, jjac, vjac = T.get("ijac", {}), T.get("jjac", {}), T.get("vjac", {})
        jnames = set(T.get("j_names", []))
        present = {fn[:-7] for fn in gen.funcs if fn.endswith("_update") and fn[:-7] in JN}
        if jnames != present:
            ctx.violation("C03.names", "%s.j_names" % name,
                          "j_names %s != generated Jacobian functions %s (loader reads only j_names)" % (
                              sorted(jnames), sorted(present)))
        else:
            ctx.ok("C03.names", "%s.j_names" % name, str(sorted(jnames)), nontrivial=bool(jnames))

        for jn in JN:
            fname = jn + "_update"
            wj = want.get(jn, {})
            rows_, cols_ = list(ijac.get(jn, [])), list(jjac.get(jn, []))
            if fname not in gen.funcs:
                for (ri, cj), (d, rn, cn) in wj.items():
                    ctx.violation("C03.complete", "%s.%s[d%s/d%s]" % (name, jn, rn, cn),
                                  "non-zero derivative %s has no generated entry (no %s)" % (d, fname), elab.locate(m, rn))
                continue
            nfun += 1
            g = gen.funcs[fname]
            check_signature(ctx, mt, fname, T.get("j_args", {}).get(jn), name)
            els = g.elements()
            if not (len(els) == len(rows_) == len(cols_) == len(vjac.get(jn, []))):
                ctx.violation("C03.entry", "%s.%s" % (name, fname),
                              "returns %d values, index tables have %d/%d/%d entries" % (
                                  len(els), len(rows_), len(cols_), len(vjac.get(jn, []))))
                continue
            seen = set()
            rownames = sx if jn[0] == "f" else sy
            for k, (ri, cj, el) in enumerate(zip(rows_, cols_, els)):
                if not (0 <= ri < len(rownames) and 0 <= cj < len(allv)):
                    ctx.violation("C03.entry", "%s.%s[%d]" % (name, jn, k), "index (%s,%s) out of range" % (ri, cj))
                    continue
                rn, cn = rownames[ri], allv[cj]
                c = "%s.%s[d%s/d%s]" % (name, jn, rn, cn)
                w = elab.locate(m, rn)
                if V[rn].e_code + V[cn].v_code != jn:
                    ctx.violation("C03.entry", c, "entry filed under %s but row is %s-equation / column %s-variable" % (
                        jn, V[rn].e_code, V[cn].v_code), w)
                    continue
                if (ri, cj) in seen:
                    ctx.violation("C03.entry", c, "duplicate entry (values would be accumulated twice)", w)
                    continue
                seen.add((ri, cj))
                try:
                    b = mt.gen_expr(el, g.params)
                except dsl.DSLError as ex:
                    (ctx.violation if "free name" in str(ex) else ctx.undecided)("C03.entry", c, str(ex), w)
                    continue
                a = wj.get((ri, cj), (sp.S.Zero,))[0]
                cmp_into(ctx, "C03.entry", c, a, b, w, fl, stats)
            for (ri, cj), (d, rn, cn) in wj.items():
                if (ri, cj) not in seen:
                    # provably non-zero derivative without an entry
                    nz = dsl.numeric_nonzero(d, flags=fl)
                    if nz is True:
                        ctx.violation("C03.complete", "%s.%s[d%s/d%s]" % (name, jn, rn, cn),
                                      "non-zero derivative %s has no generated entry" % str(d)[:200], elab.locate(m, rn))
                    else:
                        ctx.undecided("C03.complete", "%s.%s[d%s/d%s]" % (name, jn, rn, cn), "derivative %s" % str(d)[:100])
            ctx.ok("C03.complete", "%s.%s" % (name, jn), "%d structural non-zeros all present" % len(wj),
                   nontrivial=len(wj) > 0)

        # constant lists == diag_eps diagonals, nothing else
        want_c = {}
        for vn, var in V.items():
            de = var.diag_eps
            if de == 0.0:
                continue
            eps = 1e-8 if de is True else de
            lst = sy if var.e_code == "g" else sx
            want_c.setdefault(var.e_code + var.v_code + "c", set()).add((lst.index(vn), allv.index(vn), float(eps)))
        for jn in JN:
            got = set(zip(ijac.get(jn + "c", []), jjac.get(jn + "c", []), [float(x) for x in vjac.get(jn + "c", [])]))
            w = want_c.get(jn + "c", set())
            if got or w:
                ctx.check(got == w, "C03.const", "%s.%sc" % (name, jn), "%d diag_eps diagonals" % len(w),
                          "constant entries %s != declared diag_eps diagonals %s" % (sorted(got), sorted(w)))

    ctx.extra["programs"] = nfun
    ctx.extra["disagreements_checked"] = sum(v for k, v in stats.items() if k != "structural")
    ctx.extra["stages"] = stats
    ctx.count("models", len(models))


# ---------------------------------------------------------------------------

def rule_index_conventions(ctx, repo):
    f = F.method(repo, "Model", "_jac_eq_var_name", MODEL)
    fn = f.fn
    # names list over cache.all_vars; 'f' -> leading len(states_and_ext) slice, 'g' -> the rest
    nl = Q.first("$L = list(self.cache.all_vars.keys())", fn)[1] or Q.first("$L = list(self.cache.all_vars)", fn)[1]
    ok = nl is not None
    d = None
    if ok:
        for n in walk_noscope(fn):
            if isinstance(n, ast.Dict) and len(n.keys) == 2:
                d = {getattr(k, "value", None): v for k, v in zip(n.keys, n.values)}
        ok = d is not None and Q.match("$L[:len(self.cache.states_and_ext)]", d.get("f"), nl) is not None \
            and Q.match("$L[len(self.cache.states_and_ext):]", d.get("g"), nl) is not None
    r = Q.first("$row = self.calls.ijac[$j][$i]", fn)[1]
    c = Q.first("$col = self.calls.jjac[$j][$i]", fn, r)[1] if r else None
    ok = ok and c is not None and Q.has("$E[$j[0]][$row]", fn, c) and Q.has("$L[$col]", fn, dict(c, **nl))
    ctx.check(ok, "C03.index", "Model._jac_eq_var_name",
              "row indexes states_and_ext/algebs_and_ext by j_name[0]; col indexes all_vars",
              "row/column name lookup no longer matches the generator's index convention "
              "(row: eq_names[j_name[0]][ijac], col: all_vars[jjac])", f.W())

    # generator side: e_idx over states_and_ext/algebs_and_ext lists, v_idx over vars_dict, jname = e_code+v_code
    g = F.method(repo, "SymProcessor", "generate_jacobians", SYMPROC)
    fn = g.fn
    e = Q.first("$V = list(self.vars_dict)", fn)[1]
    ok = e is not None
    if ok:
        e = Q.first("$A = list(self.cache.algebs_and_ext)", fn, e)[1]
        e = Q.first("$S = list(self.cache.states_and_ext)", fn, e)[1] if e else None
    ok = e is not None
    if ok:
        e2 = Q.first("($ei, $vi, $sym) = $item", fn, e)[1] or {}
        e.update(e2)
        ok = Q.has("$en = $S[$ei]", fn, e) and Q.has("$en = $A[$ei]", fn, e) and Q.has("$vn = $V[$vi]", fn, e)
        ok = ok and Q.has("self.calls.append_ijv($jn, $ei, $vi, 0)", fn, e)
        jn = Q.first("$jn = f'{$eqn.e_code}{$var.v_code}'", fn)[1]
        ok = ok and jn is not None
    # a shape rule: when the generator is written differently the convention cannot be confirmed HERE -- that is UNDECIDED, not a
    # violation (the content of the filed triplets is decided by the translation validation C03.tv on the generator's output)
    if ok:
        ctx.ok("C03.index", "SymProcessor.generate_jacobians", "entries filed under e_code+v_code with (e_idx, v_idx)", g.W())
    else:
        ctx.undecided("C03.index", "SymProcessor.generate_jacobians",
                      "generator's triplet filing changed shape (index convention decided by C03.tv on its output only)", g.W())

    # Model.store_sparse_pattern: k-th address triplet == k-th generated entry, constants use val
    s = F.method(repo, "Model", "store_sparse_pattern", MODEL)
    fn = s.fn
    ok = False
    for lp, e in Q.loops(fn, "enumerate(self.calls.vjac[$j])", "($i, $val)"):
        outer = [x for x, _ in Q.loops(fn, "jac_full_names", "$j", e)]
        e1 = Q.first("($rn, $cn) = self._jac_eq_var_name($j, $i)", lp, e)[1]
        if not outer or e1 is None:
            continue
        e2 = Q.first("$ri = self.__dict__[$rn].a", lp, e1)[1]
        e3 = Q.first("$ci = self.__dict__[$cn].a", lp, e2)[1] if e2 else None
        if e3 is None:
            continue
        if Q.has("self.triplets.append_ijv($j, $ri, $ci, $v)", lp, e3):
            ok = True
    ctx.check(ok, "C03.index", "Model.store_sparse_pattern",
              "addresses taken from row/col variable .a in generated order",
              "addressed triplets no longer built as append_ijv(j_name, (row var).a, (col var).a, value) in generated order", s.W())
    clr = s.calls("self.triplets.clear_ijv")
    app = s.calls("self.triplets.append_ijv")
    ok, wit = s.before(clr, app)
    ctx.check(ok, "C03.index", "Model.store_sparse_pattern/clear-first", "triplets cleared before re-appending",
              "append_ijv reachable without clear_ijv: " + wit, s.W())


def rule_pattern(ctx, repo):
    """pattern superset of update set; template never mutated between updates."""
    s = F.method(repo, "System", "store_sparse_pattern", SYSTEM)
    fn = s.fn
    # decided by evaluation (engine/tinyexec.py) with two stand-in models whose triplet tables cover: variable entries, constant
    # entries, several blocks per matrix, an empty matrix; the DAE stand-in records what is stored
    import numpy as _np
    from collections import OrderedDict as _OD
    from engine.tinyexec import TinyExec, Fake
    from engine.ordertype import Unsupported
    A = _np.array

    class _Tri(Fake):
        def __init__(self, table):
            self.table = table

        def zip_ijv(self, name):
            return list(self.table.get(name, []))

    class _Mdl(Fake):
        def __init__(self, table):
            self.triplets = _Tri(table)

    class _Dae(Fake):
        def __init__(self):
            self.m, self.n, self.log = 3, 2, []

        def store_sparse_ijv(self, name, ii, jj, vv):
            self.log.append(("store", name, [int(x) for x in ii], [int(x) for x in jj], [float(x) for x in vv]))

        def build_pattern(self, name):
            self.log.append(("build", name))

    class _Sys(Fake):
        pass
    m1 = _Mdl({"gy": [(A([0, 1]), A([1, 0]), A([0.0, 0.0])), (A([2]), A([2]), A([0.0]))], "gyc": [(A([0, 1]), A([0, 1]), 2.5)],
               "fx": [(A([0]), A([1]), A([0.0]))], "fxc": [(A([1]), A([1]), -1.0)], "gx": [(A([1]), A([0]), A([0.0]))]})
    m2 = _Mdl({"gy": [(A([1]), A([2]), A([0.0]))], "gyc": [(A([2]), A([1]), 7.0)], "fyc": [(A([0, 1]), A([2, 2]), 4.0)]})
    sysobj = _Sys()
    sysobj.dae = _Dae()
    stubs = {"self.call_models": lambda *a_, **k_: None, "jac_names": ("fx", "fy", "gx", "gy"), "np.arange": _np.arange, "np.zeros": _np.zeros,
             "np.ones": _np.ones, "np.zeros_like": _np.zeros_like, "np.ones_like": _np.ones_like, "np.array": _np.array, "np.asarray": _np.asarray,
             "np.concatenate": _np.concatenate, "np.hstack": _np.hstack, "np.full": _np.full, "np.full_like": _np.full_like,
             "np.append": _np.append, "np.repeat": _np.repeat, "int": int, "float": float, "OrderedDict": _OD}
    models = _OD([("A", m1), ("B", m2)])
    und = None
    try:
        TinyExec(repo, "System", SYSTEM, stubs=stubs).call("store_sparse_pattern", sysobj, models)
    except Unsupported as ex:
        und = str(ex)
    constructs = {"variable": ("every model's variable triplets of each of fx,fy,gx,gy enter the template", []),
                  "constant": ("every model's constant triplets enter the template", []),
                  "constant-values": ("constant triplets contribute (row, col, val*ones); variable triplets contribute zeros", []),
                  "gy-diagonal": ("gy main diagonal reserved", []),
                  "build": ("store_sparse_ijv(jname, ii, jj, vv) followed by build_pattern(jname)", []),
                  "args": ("store_sparse_ijv(name,row,col,val) order", [])}
    if und:
        for c_ in constructs:
            ctx.undecided("C03.pattern", "System.store_sparse_pattern/%s" % c_, "evaluator: %s" % und, s.W())
    else:
        log = sysobj.dae.log
        for jn in ("fx", "fy", "gx", "gy"):
            st_ = [x for x in log if x[0] == "store" and x[1] == jn]
            if len(st_) != 1:
                constructs["build"][1].append("%s stored %d times" % (jn, len(st_)))
                continue
            k_ = log.index(st_[0])
            if not any(x == ("build", jn) for x in log[k_ + 1:]):
                constructs["build"][1].append("no build_pattern(%r) after the store" % jn)
            got = sorted(zip(st_[0][2], st_[0][3], st_[0][4]))
            var = sorted((int(r_), int(c_), 0.0) for mm in (m1, m2) for (rr, cc, _v) in mm.triplets.table.get(jn, []) for r_, c_ in zip(rr, cc))
            con = sorted((int(r_), int(c_), float(v_)) for mm in (m1, m2) for (rr, cc, v_) in mm.triplets.table.get(jn + "c", []) for r_, c_ in zip(rr, cc))
            diag = [(i_, i_, 0.0) for i_ in range(3)] if jn == "gy" else []
            pos = lambda L: sorted((a_, b_) for a_, b_, _ in L)      # noqa: E731
            if got == sorted(var + con + diag):
                continue
            gpos = pos(got)
            swapped = sorted((b_, a_) for a_, b_ in gpos) == pos(var + con + diag) and gpos != pos(var + con + diag)
            if swapped:
                constructs["args"][1].append("%s: rows and columns exchanged" % jn)
            elif gpos == pos(var + con + diag):
                constructs["constant-values"][1].append("%s: stored values %s, expected %s" % (jn, got, sorted(var + con + diag)))
            else:
                missing = [x for x in pos(var + con + diag) if x not in gpos]
                if any(x in pos(var) for x in missing):
                    constructs["variable"][1].append("%s: variable positions %s missing" % (jn, [x for x in missing if x in pos(var)]))
                if any(x in pos(con) for x in missing):
                    constructs["constant"][1].append("%s: constant positions %s missing" % (jn, [x for x in missing if x in pos(con)]))
                if any(x in pos(diag) and x not in pos(var + con) for x in missing):
                    constructs["gy-diagonal"][1].append("gy diagonal positions missing")
                if not missing:
                    constructs["variable"][1].append("%s: extra positions %s" % (jn, [x for x in gpos if x not in pos(var + con + diag)]))
        for c_, (txt, bad) in constructs.items():
            ctx.check(not bad, "C03.pattern", "System.store_sparse_pattern/%s" % c_, txt,
                      "the sparsity template differs from the models' triplets: " + "; ".join(bad[:2]), s.W())

    # DAE side: build_pattern -> tpl from (V,I,J) and restore_sparse from tpl (V, I, J)
    b = F.method(repo, "DAE", "build_pattern", DAE)
    ok = Q.has("self.tpl[$n] = spmatrix(self.triplets.vjac[$n], self.triplets.ijac[$n], self.triplets.jjac[$n], "
               "self.get_size($n), 'd')", b.fn)
    ctx.check(ok, "C03.pattern", "DAE.build_pattern", "tpl = spmatrix(V, I, J, size)",
              "template is not built as spmatrix(vjac, ijac, jjac, size)", b.W())
    r = F.method(repo, "DAE", "restore_sparse", DAE)
    ok = Q.has("self.__dict__[$n] = spmatrix(self.tpl[$n].V, self.tpl[$n].I, self.tpl[$n].J, self.tpl[$n].size, 'd')", r.fn)
    ctx.check(ok, "C03.pattern", "DAE.restore_sparse", "fresh copy of the template (V, I, J, size)",
              "restore_sparse does not rebuild the matrix from the template's V, I, J", r.W())
    ss = F.method(repo, "DAE", "store_sparse_ijv", DAE)
    a = [x.arg for x in ss.fn.args.args]
    ok = len(a) == 5 and Q.has("self.triplets.ijac[%s] = %s" % (a[1], a[2]), ss.fn) \
        and Q.has("self.triplets.jjac[%s] = %s" % (a[1], a[3]), ss.fn) \
        and Q.has("self.triplets.vjac[%s] = %s" % (a[1], a[4]), ss.fn)
    ctx.check(ok, "C03.pattern", "DAE.store_sparse_ijv", "row->ijac, col->jjac, val->vjac",
              "store_sparse_ijv files row/col/val under the wrong triplet list", ss.W())
    gs = F.method(repo, "DAE", "get_size", DAE)
    rows = {}
    for tnode in gs.tests(lambda c: " in " in c or "==" in c):
        cond = src(gs.g.data(tnode)["expr"][0])
        for n in gs.g.nodes():
            if gs.g.data(n)["kind"] == "stmt" and gs.g.guarded_by(n, tnode, "true"):
                mm = Q.match("$r.append(self.$attr)", gs.g.data(n)["ast"])
                if mm:
                    for ch in "fxgyz":
                        if "'%s'" % ch in cond:
                            rows.setdefault(ch, mm["attr"])
    ok = rows.get("f") == "n" and rows.get("x") == "n" and rows.get("g") == "m" and rows.get("y") == "m"
    ctx.check(ok, "C03.pattern", "DAE.get_size", "f,x -> n ; g,y -> m", "matrix shape table changed: %s" % rows, gs.W())

    # System.j_update: restore before accumulate, same triplets, both branches (vals, rows, cols), j_islands last
    j = F.method(repo, "System", "j_update", SYSTEM)
    fn = j.fn
    rs = j.calls("self.dae.restore_sparse")
    outer = Q.loops(fn, "jac_names", "$j")
    e = outer[0][1] if outer else None
    accl = Q.loops(fn, "$m.triplets.zip_ijv($j)", "($rows, $cols, $vals)", e) if e else []
    okl = bool(accl) and bool(Q.loops(fn, "models.values()", "$m", accl[0][1]))
    ctx.check(okl, "C03.pattern", "System.j_update/enumeration",
              "accumulates mdl.triplets.zip_ijv(j_name) for j_name in jac_names (the triplets the template was built from)",
              "accumulation no longer enumerates the model triplets of every Jacobian name", j.W())
    acc = j.calls("ipadd") + j.g.find(lambda n: isinstance(n, ast.Call) and dotted(n.func) == "spmatrix")
    ok, wit = j.before(rs, acc)
    ctx.check(bool(acc) and ok, "C03.pattern", "System.j_update/restore-first",
              "restore_sparse() dominates accumulation", "accumulation reachable without restore_sparse(): " + wit, j.W())
    ok = False
    if accl:
        e3 = accl[0][1]
        ok = Q.has("self.dae.__dict__[$j].ipadd($vals, $rows, $cols)", fn, e3) and \
            Q.has("self.dae.__dict__[$j] += spmatrix($vals, $rows, $cols, $size, 'd')", fn, e3) and \
            Q.has("$size = self.dae.get_size($j)", fn, e3)
    ctx.check(ok, "C03.pattern", "System.j_update/branch-agreement",
              "ipadd(vals, rows, cols) and += spmatrix(vals, rows, cols, size(j_name)) agree",
              "in-place and rebuild branches do not both add (vals, rows, cols) of the same triplet to dae.<j_name>", j.W())
    # between restore and exit the matrices may only be touched by pattern-preserving accumulation
    bad = []
    for n in walk_noscope(fn):
        if isinstance(n, ast.Assign) and any((dotted(t.value) if isinstance(t, ast.Subscript) else None) == "self.dae.__dict__" for t in n.targets):
            bad.append(src(n))
    ctx.check(not bad, "C03.pattern", "System.j_update/pattern-preserving",
              "after restore_sparse the matrices are only modified by ipadd / += spmatrix (template pattern kept)",
              "dae Jacobian reassigned after accumulation (%s): stored zeros can be dropped, so the pattern changes between updates" % bad, j.W())
    isl = j.calls("self.j_islands")
    ok, wit = j.after(acc, isl)
    ctx.check(ok, "C03.pattern", "System.j_update/islands-last", "j_islands() post-dominates accumulation",
              "accumulation can reach exit without j_islands(): " + wit, j.W())
    mu = [n for n in j.calls("self.call_models") if "'j_update'" in src(j.g.data(n)["ast"])]
    ok, wit = j.before(mu, acc)
    ctx.check(ok, "C03.pattern", "System.j_update/values-first", "model j_update precedes accumulation",
              "accumulation without model value update: " + wit, j.W())

    # Model.j_update writes values in place, never changes the triplet structure
    m = F.method(repo, "Model", "j_update", MODEL)
    fn = m.fn
    inplace = False
    for lp, e in Q.loops(fn, "self.calls.j.items()", "($j, $f)"):
        e1 = Q.first("$ret = $f(*self.j_args[$j])", lp, e)[1]
        if e1 is None:
            continue
        for lp2, e2 in Q.loops(lp, "enumerate(self.calls.vjac[$j])", "($i, $_)", e1):
            if Q.has("self.triplets.vjac[$j][$i][:] = $ret[$i]", lp2, e2):
                inplace = True
    # no iteration may bypass the evaluation (conditional skip / cache): every path around the model loop passes the call
    if inplace:
        heads = [n for n in m.g.nodes() if m.g.data(n)["kind"] == "loop" and isinstance(m.g.data(n)["ast"], ast.For)
                 and Q.match("self.calls.j.items()", m.g.data(n)["ast"].iter)]
        evals = [n for n in m.g.nodes() if m.g.data(n)["kind"] == "stmt" and Q.match("$r = $f(*self.j_args[$j])", m.g.data(n)["ast"])]
        if heads and evals and m.g.cycle_avoiding(heads[0], evals):
            inplace = False
            ctx.violation("C03.pattern", "Model.j_update/skip", "an iteration of the Jacobian loop can skip the evaluation of its function "
                          "(conditional `continue` / cache): entries that depend on parameters or status keep stale values after "
                          "alter()/set()", m.W(heads[0]))
            inplace = True
    mut = [c for c in calls_in(fn) if (dotted(c.func) or "").split(".")[-1] in ("append_ijv", "clear_ijv", "merge")]
    ctx.check(inplace and not mut, "C03.pattern", "Model.j_update",
              "k-th returned value of jfunc(*j_args[jname]) written in place into k-th addressed triplet; structure untouched",
              "Model.j_update no longer writes ret[idx] in place into triplets.vjac[jname][idx] (or mutates the structure)",
              m.W())


def tv_sensitivity(ctx, models, gens, per_model=4, seed=0):
    """thorough: every provably non-equivalent mutant of a generated Jacobian function must be reported."""
    import random
    from engine import tvmut
    rnd = random.Random(seed)
    total = caught = skipped = 0
    missed = []
    for name, m in models.items():
        gen = gens[name]
        try:
            mt = tv.ModelTV(name, m, gen)
        except dsl.DSLError:
            continue
        fl = tv.flags_of(m, mt.st)
        sx, sy, allv = mt.var_order()
        T = gen.tables
        for jn in JN:
            gf = gen.funcs.get(jn + "_update")
            if gf is None or gf.ret is None:
                continue
            rows, cols = T["ijac"][jn], T["jjac"][jn]
            rownames = sx if jn[0] == "f" else sy
            try:
                decl = [sp.diff(mt.eq(rownames[r]), mt.st.get(allv[c])) for r, c in zip(rows, cols)]
                orig = [mt.gen_expr(e, gf.params) for e in gf.elements()]
            except Exception:
                continue
            for kind, mf in tvmut.mutants_of(gf, rnd, k=per_model):
                try:
                    if list(mf.params) != list(T["j_args"][jn]):
                        verdict, nonequiv = "violation", True
                    else:
                        got = [mt.gen_expr(e, mf.params) for e in mf.elements()]
                        nonequiv = any(dsl.numeric_nonzero(sp.expand(a - b), flags=fl) is True for a, b in zip(orig, got))
                        if not nonequiv:
                            skipped += 1
                            continue
                        verdict = "ok"
                        for a, b in zip(decl, got):
                            if dsl.equal(a, b, flags=fl, deep=False)[0] == "differ":
                                verdict = "violation"
                                break
                except dsl.DSLError:
                    verdict = "violation"
                except Exception:
                    skipped += 1
                    continue
                total += 1
                if verdict == "violation":
                    caught += 1
                else:
                    missed.append("%s.%s/%s" % (name, jn, kind))
    ctx.extra["tv_sensitivity"] = dict(mutants=total, caught=caught, skipped_equivalent_or_unparsed=skipped, missed=missed[:20])
    print("   tv sensitivity: %d/%d non-equivalent mutants of generated Jacobian functions reported (%d skipped)" % (caught, total, skipped))
    return missed


def run(ctx):
    ctx.rule("C03.entry", "k-th element of <jname>_update == d eq[ijac[k]] / d var[jjac[k]] by own differentiation of own "
             "parse; filed under e_code+v_code; no duplicates", 2500)
    ctx.rule("C03.complete", "every structurally non-zero derivative has an entry", 150)
    ctx.rule("C03.const", "constant lists hold exactly the diag_eps diagonals", 20)
    ctx.rule("C03.names", "j_names == generated Jacobian functions", 90)
    ctx.rule("C03.order", "all_vars == states_and_ext + algebs_and_ext for every model", 80)
    ctx.rule("C03.binding", "alias of C02.binding for Jacobian functions", 0)
    ctx.rule("C03.index", "index conventions of generator, Model._jac_eq_var_name and Model.store_sparse_pattern agree", 4)
    ctx.rule("C03.pattern", "template enumerates every variable+constant triplet and the gy diagonal; j_update restores "
             "the template, accumulates exactly those triplets in place, with agreeing branches; j_islands last", 14)
    ctx.assume("sympy is the normal-form kernel; Indicator(...) is piecewise constant (derivative 0 a.e.)")
    ctx.assume("kvxopt spmatrix(V, I, J, size) / ipadd semantics as documented")
    ctx.assume("hand-written block Jacobians (j_numeric): only PIControllerNumeric, unused by shipped models; not checked")
    repo = Repo()
    models, gens, cached = tv.load_all()
    ctx.extra["generator_cache_hit"] = cached
    run_models(ctx, models, gens)
    # C02.binding results recorded by check_signature belong to this property's binding rule
    for r in ctx.results:
        if r["rule"] == "C02.binding":
            r["rule"] = "C03.binding"
    ctx.nontrivial = {(("C03.binding" if k[0] == "C02.binding" else k[0]), k[1]) for k in ctx.nontrivial}
    if ctx.tier == "thorough":
        missed = tv_sensitivity(ctx, models, gens)
        if missed:
            from engine.report import AnalysisError
            raise AnalysisError("translation validator is blind to %d mutants of generated Jacobians, e.g. %s" % (len(missed), missed[:3]))
    rule_index_conventions(ctx, repo)
    rule_pattern(ctx, repo)
    for r in ctx.results:
        if r["rule"] == "C03.entry" and r["detail"] not in ("structural",):
            ctx.sample(dict(construct=r["construct"], verdict=r["verdict"], stage=r["detail"][:120], where=r["where"]))
    for r in ctx.results[:3]:
        ctx.sample(dict(construct=r["construct"], verdict=r["verdict"], stage=r["detail"][:120], where=r["where"]))
