"""C08, evaluated clauses (engine/tinyexec.py with NumPy passed through; kvxopt constructors replaced by dense stand-ins):

  C08.partition/EIG._store_stats/complex   the three counts partition the eigenvalues by the sign of the REAL part, for complex eigenvalues too
                                           (samples: every ordering of the real part against -tol, 0, tol x imaginary part zero / non-zero);
  C08.reorder/EIG.find_zero_states/fresh   the zero-time-constant states are re-read from dae.Tf on every call (two calls with the same
                                           number of zero entries at different positions);
  C08.reorder/EIG._reorder/names           after the reordering, the k-th state name belongs to the k-th row/column of the reduced matrix:
                                           with A[i, j] = 100 i + j and names s0..s(n-1), block (p, q) of the result equals A[order[p], order[q]]
                                           where `order` is read back from the names -- for every placement of 1..3 zero states among 6."""
import itertools

import numpy as np

from engine.pysrc import F
from engine.tinyexec import TinyExec, Fake
from engine.ordertype import Unsupported

EIG = "andes/routines/eig.py"
NOP = lambda *a, **k: None      # noqa: E731
LOG = {"logger.info": NOP, "logger.debug": NOP, "logger.warning": NOP, "logger.error": NOP}
NP = {"np.%s" % k: getattr(np, k) for k in ("where", "count_nonzero", "abs", "array", "arange", "ones", "zeros", "isclose", "real", "imag", "sum",
                                            "logical_and", "logical_or", "logical_not", "delete", "asarray", "flatnonzero", "nonzero", "isin",
                                            "in1d", "concatenate", "setdiff1d", "argsort", "sort", "eye", "ix_", "take", "append", "absolute",
                                            "less", "less_equal", "greater", "greater_equal", "equal", "all", "any", "diag")}


class _Obj(Fake):
    pass


def rule_store_stats(ctx, repo):
    f = F.method(repo, "EIG", "_store_stats", EIG)
    tol = 1e-6
    res = [-2 * tol, -tol, -tol / 2, 0.0, tol / 2, tol, 2 * tol, 1.0, -1.0]
    mu = np.array([complex(r, i) for r in res for i in (0.0, 5.0, -5.0)])
    e = _Obj()
    e.mu, e.config = mu, _Obj()
    e.config.tol = tol
    try:
        TinyExec(repo, "EIG", EIG, stubs=dict(NP, **LOG, abs=abs)).call("_store_stats", e)
    except Unsupported as ex:
        ctx.undecided("C08.partition", "EIG._store_stats/complex", "evaluator: %s" % ex, f.W())
        return
    want = (int(np.count_nonzero(mu.real > tol)), int(np.count_nonzero(np.abs(mu.real) <= tol)), int(np.count_nonzero(mu.real < -tol)))
    got = tuple(int(getattr(e, k, -1)) for k in ("n_positive", "n_zeros", "n_negative"))
    ctx.check(got == want and sum(got) == len(mu), "C08.partition", "EIG._store_stats/complex",
              "positive / zero / negative counts partition complex eigenvalues by the sign of the real part (%d samples)" % len(mu),
              "for %d sample eigenvalues (real part around 0 and +-tol, imaginary part 0 or 5) the counts are %s, the partition by real part is %s: "
              "an undamped oscillatory pair falls into none or two of the classes" % (len(mu), got, want), f.W())


def rule_find_zero_states(ctx, repo):
    f = F.method(repo, "EIG", "find_zero_states", EIG)
    e = _Obj()
    e.system = _Obj()
    e.system.dae = _Obj()
    e.zstate_idx, e.nz_counts = np.array([], dtype=int), None
    bad = []
    try:
        for tf in ([1.0, 0.0, 2.0, 0.0, 3.0], [1.0, 1.0, 0.0, 0.0, 3.0], [0.0, 1.0, 1.0, 1.0, 0.0], [1.0, 2.0, 3.0, 4.0, 5.0], [0.0, 1.0, 1.0, 1.0, 1.0]):
            e.system.dae.Tf, e.system.dae.n = np.array(tf), len(tf)
            e.system.dae.x_name = ["s%d" % i for i in range(len(tf))]
            TinyExec(repo, "EIG", EIG, stubs=dict(NP, **LOG)).call("find_zero_states", e)
            want = [i for i, t in enumerate(tf) if t == 0]
            got = [int(i) for i in np.atleast_1d(e.zstate_idx)]
            if got != want or e.nz_counts != len(tf) - len(want):
                bad.append("Tf = %s: zero states %s (nz_counts %s), expected %s" % (tf, got, e.nz_counts, want))
    except Unsupported as ex:
        ctx.undecided("C08.reorder", "EIG.find_zero_states/fresh", "evaluator: %s" % ex, f.W())
        return
    ctx.check(not bad, "C08.reorder", "EIG.find_zero_states/fresh", "zero-time-constant states are read from dae.Tf on every call",
              "; ".join(bad[:2]) + " -- a time constant moved to or from zero between two analyses (Model.set, sweep) leaves the previous partition: "
              "the state matrix has the wrong dimension", f.W())


def rule_reorder_names(ctx, repo):
    f = F.method(repo, "EIG", "_reorder", EIG)
    n = 6
    A = np.array([[100.0 * i + j for j in range(n)] for i in range(n)])

    def _spmatrix(v, i, j, *a, **k):
        m = np.zeros((n, n))
        for vv, ii, jj in zip(np.ravel(v), np.ravel(i), np.ravel(j)):
            m[int(ii), int(jj)] += vv
        return np.asmatrix(m)
    stubs = dict(NP, **LOG, spmatrix=_spmatrix, matrix=lambda x, *a, **k: np.asarray(x), sparse=lambda x: np.asmatrix(np.asarray(x)), range=range)
    bad, cases = [], 0
    try:
        for k in (1, 2, 3):
            for z in itertools.combinations(range(n), k):
                e = _Obj()
                e.system = _Obj()
                e.system.dae = _Obj()
                e.system.dae.n = n
                e.As, e.x_name = A.copy(), np.array(["s%d" % i for i in range(n)], dtype=object)
                e.zstate_idx, e.nz_counts = np.array(z, dtype=int), n - k
                ret = TinyExec(repo, "EIG", EIG, stubs=stubs).call("_reorder", e)
                cases += 1
                names = [str(x) for x in e.x_name]
                kept = [i for i in range(n) if i not in z]
                if sorted(names) != sorted("s%d" % i for i in kept):
                    bad.append("zero states %s: names after reordering %s, the states that remain are %s" % (z, names, ["s%d" % i for i in kept]))
                    continue
                order = [int(x[1:]) for x in names]
                nfx = np.asarray(ret[0])
                if nfx.shape != (n - k, n - k) or not np.array_equal(nfx, A[np.ix_(order, order)]):
                    bad.append("zero states %s: names say the reduced matrix is ordered %s but its entries are those of another order" % (z, order))
    except Unsupported as ex:
        ctx.undecided("C08.reorder", "EIG._reorder/names", "evaluator: %s" % ex, f.W())
        return
    ctx.check(not bad, "C08.reorder", "EIG._reorder/names", "state names follow the rows/columns of the reordered matrix (%d placements of zero states)" % cases,
              "%d of %d placements: %s -- the report's `most associated state` names another state" % (len(bad), cases, "; ".join(bad[:2])), f.W())


def run_rule(ctx, repo):
    rule_store_stats(ctx, repo)
    rule_find_zero_states(ctx, repo)
    rule_reorder_names(ctx, repo)
