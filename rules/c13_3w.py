"""C13.raw-columns/three-winding -- the three star branches of a PSS/E three-winding transformer take their per-winding data from their own
winding record.

PSS/E v33 gives one record per winding (WINDV, NOMV, ANG, ratings, ...) after the two common records.  In the reader's loop over the three
windings, the per-winding fields of the Line record it builds -- terminal bus, star impedances, off-nominal ratio `tap` (WINDV) and phase
shift `phi` (ANG) -- must depend on the loop variable, and tap/phi must be read from the record `data[2 + i]` at the WINDV / ANG columns
(0 and 2).  A loop-invariant value gives all three branches the data of one winding."""
import ast

from engine.pysrc import F, src
from engine.cfg import walk_noscope

PSSE = "andes/io/psse.py"
PER_WINDING = {"bus1": None, "r": None, "x": None, "tap": 0, "phi": 2}      # key -> column in the winding record (None: not a winding-record column)


def run_rule(ctx, repo):
    fn = repo.funcs.get(PSSE, {}).get("_parse_transf_v33")
    if fn is None:
        ctx.undecided("C13.raw-columns", "three-winding/per-winding", "_parse_transf_v33 not found", PSSE)
        return
    found = False
    for lp in [n for n in walk_noscope(fn) if isinstance(n, ast.For) and isinstance(n.target, ast.Name)]:
        it = src(lp.iter).replace(" ", "")
        if it not in ("range(0,3)", "range(3)"):
            continue
        for d in [n for n in ast.walk(lp) if isinstance(n, ast.Dict)]:
            keys = {k.value: v for k, v in zip(d.keys, d.values) if isinstance(k, ast.Constant)}
            if not ({"tap", "phi", "bus1"} <= set(keys)):
                continue
            found = True
            i = lp.target.id
            # once-bound locals inside the loop body are followed one step
            local = {st.targets[0].id: st.value for st in ast.walk(lp) if isinstance(st, ast.Assign) and len(st.targets) == 1 and isinstance(st.targets[0], ast.Name)}
            bad = []
            for key, col in PER_WINDING.items():
                v = keys.get(key)
                if v is None:
                    bad.append("`%s` is not set" % key)
                    continue
                names = {x.id for x in ast.walk(v) if isinstance(x, ast.Name)}
                exprs = [v] + [local[nm] for nm in names if nm in local]
                if not any(isinstance(x, ast.Name) and x.id == i for e in exprs for x in ast.walk(e)):
                    bad.append("`%s` = `%s` does not depend on the winding index `%s`" % (key, src(v)[:40], i))
                    continue
                if col is not None:
                    ok = any(isinstance(x, ast.Subscript) and isinstance(x.slice, ast.Constant) and x.slice.value == col and isinstance(x.value, ast.Subscript)
                             and i in src(x.value.slice) and "2" in src(x.value.slice) for e in exprs for x in ast.walk(e))
                    if not ok:
                        bad.append("`%s` = `%s` is not column %d of the winding's own record data[2 + %s]" % (key, src(v)[:40], col, i))
            ctx.check(not bad, "C13.raw-columns", "three-winding/per-winding", "bus, r, x, tap (WINDV) and phi (ANG) of each star branch come from its own winding",
                      "; ".join(bad[:3]) + " -- all three branches of a three-winding transformer get the ratio / angle of one winding", "%s:%d" % (PSSE, d.lineno))
    if not found:
        ctx.undecided("C13.raw-columns", "three-winding/per-winding", "the loop over the three windings is not recognised", PSSE)
