"""C17.nan/PFlow.nr_solve/applied-update -- the state that is reported as converged has been looked at.

PFlow.nr_step evaluates the mismatch, solves for the Newton increment, ADDS it to dae.x / dae.y and returns the mismatch of the point
before the update.  A success verdict on that mismatch says nothing about the increment that has already been applied: with a singular
Jacobian the solver's NaN sentinel is in the state.  Slots from the source: what nr_step adds to the state (`self.inc`).  Rule: in
nr_solve every path from the nr_step call to `self.converged = True` passes a NaN test (its true branch leaves the loop without success)
on that increment or on the updated state."""
import ast

from engine import astq as Q
from engine.pysrc import F, dotted, src
from engine.cfg import walk_noscope

PFLOW = "andes/routines/pflow.py"


def run_rule(ctx, repo):
    st = F.method(repo, "PFlow", "nr_step", PFLOW)
    added = set()
    for n in walk_noscope(st.fn):
        if isinstance(n, ast.AugAssign) and isinstance(n.op, ast.Add) and (dotted(n.target) or "").endswith(("dae.x", "dae.y")):
            for x in ast.walk(n.value):
                if isinstance(x, ast.Attribute) and (dotted(x) or "").startswith("self.") and (dotted(x) or "").count(".") == 1:
                    if dotted(x) != "self.system":
                        added.add(dotted(x))
    f = F.method(repo, "PFlow", "nr_solve", PFLOW)
    if not added:
        ctx.undecided("C17.nan", "PFlow.nr_solve/applied-update", "the state update of nr_step is not recognised", st.W())
        return
    calls = f.calls("self.nr_step")
    succ = [n for n in f.assigns("self.converged") if Q.match("self.converged = True", f.g.data(n)["ast"])]
    watched = set(added) | {"self.system.dae.x", "self.system.dae.y", "self.system.dae.xy"}
    tests = []
    for t in f.g.nodes():
        d = f.g.data(t)
        if d["kind"] != "test" or not d["expr"]:
            continue
        cond = d["expr"][0]
        for c in ast.walk(cond):
            if isinstance(c, ast.Call) and (dotted(c.func) or "").endswith("isnan") and any(
                    isinstance(x, ast.Attribute) and dotted(x) in watched for a in c.args for x in ast.walk(a)):
                # the NaN branch must not lead to success
                tr = f.g.succ_label(t, "true")
                if all(not any(m == s_ or f.g.reachable(m, s_, avoid=[x for x in f.g.nodes() if f.g.data(x)["kind"] == "loop"]) for s_ in succ) for m in tr):
                    tests.append(t)
    if not calls or not succ:
        ctx.undecided("C17.nan", "PFlow.nr_solve/applied-update", "nr_step call or success assignment not found", f.W())
        return
    ok, pth = f.g.must_pass(calls[0], succ[0], tests) if tests else (False, f.g.path(calls[0], succ[0]))
    ctx.check(ok, "C17.nan", "PFlow.nr_solve/applied-update", "a NaN test on the applied increment (%s) lies on every path from the step to the success verdict" % ", ".join(sorted(added)),
              "nr_step adds %s to the state and returns the mismatch of the point before the update; nr_solve reaches `converged = True` (%s) without "
              "testing the increment: a singular Jacobian at a start point that already satisfies the equations (island without slack, no load) "
              "gives an all-NaN state reported as converged" % (", ".join(sorted(added)), f.g.fmt_path(pth or [])), f.W(succ[0]))
