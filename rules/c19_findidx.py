"""C19.registry/GroupBase.find_idx -- a group lookup by field values answers from whichever model of the group holds the field.

Decided by evaluation (engine/tinyexec.py) of GroupBase.find_idx on a stand-in group of three member models: one holding the field with a
match, one holding it without a match, one that does not have the field at all (its own find_idx raises KeyError like ModelData.find_idx:
`self.__dict__[key]`).  Queries: hit, miss (allow_none on/off), several values, all matches, and the empty query (which the member models
answer with [])."""
from collections import OrderedDict

from engine.pysrc import F
from engine.tinyexec import TinyExec, Fake
from engine.ordertype import Unsupported

GROUP = "andes/models/group.py"
FUNC = "andes/utils/func.py"


def run_rule(ctx, repo):
    f = F.method(repo, "GroupBase", "find_idx", GROUP)

    class _M(Fake):
        def __init__(self, name, table):
            self.class_name = name
            for k, v in table.items():
                self.__dict__[k] = v
            self.table = table

        def find_idx(self, keys, values, allow_none=False, default=None, allow_all=False):
            cols = [self.__dict__[k] for k in keys]          # KeyError when the model does not have the field
            out = []
            for search in zip(*values):
                hit = [self.table["idx"][p] for p, row in enumerate(zip(*cols)) if all(a == b for a, b in zip(search, row))]
                if not hit:
                    if not allow_none:
                        raise IndexError("not found")
                    hit = [default]
                out.append(hit if allow_all else hit[0])
            return out
    ma = _M("A", dict(idx=["a1", "a2"], bus=[1, 2], a0=[0.5, 0.7]))
    mb = _M("B", dict(idx=["b1"], bus=[2], a0=[0.9]))
    mc = _M("C", dict(idx=["c1", "c2"], bus=[1, 3]))           # no `a0`

    class _G(Fake):
        class_name = "Grp"

        def __init__(self):
            self.models = OrderedDict([("C", mc), ("A", ma), ("B", mb)])
    vk = repo.funcs.get(FUNC, {}).get("validate_keys_values")
    stubs = {"np.ndarray": list, "np.floating": float, "Iterable": (list, tuple), "Sized": (list, tuple)}
    if vk is not None:
        from engine.tinyexec import FuncRef
        ex0 = TinyExec(repo, None, FUNC, stubs=stubs)
        stubs = dict(stubs, validate_keys_values=lambda k, v: ex0.call_function(vk, [k, v], {}))
    cases = [("field held by some models only: hit", ("a0", [0.7]), {}, ["a2"]),
             ("field held by some models only: other model", ("a0", [0.9]), {}, ["b1"]),
             ("field held by some models only: miss allowed", ("a0", [0.1]), dict(allow_none=True, default=None), [None]),
             ("common field, all matches across models", ("bus", [2]), dict(allow_all=True), [["a2", "b1"]]),
             ("common field, several values", ("bus", [3, 1]), {}, ["c2", "c1"]),
             ("empty query", ("bus", []), {}, []),
             ("empty query, all matches", ("bus", []), dict(allow_all=True), [])]
    bad, und = [], None
    for what, (k, v), kw, want in cases:
        try:
            got = TinyExec(repo, "GroupBase", GROUP, stubs=stubs).call("find_idx", _G(), k, v, **kw)
        except Unsupported as ex:
            und = str(ex)
            break
        except Exception as ex:      # noqa
            bad.append("%s: find_idx(%r, %r) raises %s(%s)" % (what, k, v, type(ex).__name__, ex))
            continue
        if list(got) != want:
            bad.append("%s: find_idx(%r, %r) -> %r, expected %r" % (what, k, v, got, want))
    if not und:
        try:
            TinyExec(repo, "GroupBase", GROUP, stubs=stubs).call("find_idx", _G(), "a0", [0.1])
            bad.append("a value no device has is accepted without allow_none")
        except Unsupported as ex:
            und = str(ex)
        except (IndexError, KeyError):
            pass
    if und:
        ctx.undecided("C19.registry", "GroupBase.find_idx/partial-fields", "evaluator: %s" % und, f.W())
    else:
        ctx.check(not bad, "C19.registry", "GroupBase.find_idx/partial-fields", "lookups answer from whichever model holds the field; the empty query is answered like the models do",
                  "; ".join(bad[:2]), f.W())
