"""C13 -- case files round-trip; one case in different formats is one system.

Decided: xlsx/json writer-reader symmetry and freshness (shared with C11); the MATPOWER import and export column
tables are mutual inverses; scatter-assignment through a many-to-one device->bus index must accumulate for additive
quantities; every entry of psse-dyr.yaml agrees with the declarations of its destination model; format registry.
Agreement of RAW parsing with an independent reading of the file is declined."""
import ast
import os

from engine import astq as Q
from engine import elab
from engine.cfg import walk_noscope
from engine.pysrc import Repo, F, dotted, src, calls_in
from engine.report import AnalysisError, REPO
from rules import c11

MPC = "andes/io/matpower.py"
IO = "andes/io/__init__.py"
SYSTEM = "andes/system.py"
DYR = "andes/io/psse-dyr.yaml"

INV = {"/base_mva": "*base_mva", "*deg2rad": "*rad2deg", "": ""}


def _scale(expr):
    """(core expression, scale tag) for `x / base_mva`, `x * deg2rad`, `x * base_mva`, `x * rad2deg`, or plain."""
    if isinstance(expr, ast.BinOp) and isinstance(expr.right, (ast.Name, ast.Attribute)):
        r = dotted(expr.right)
        if r in ("system.config.mva", "mbase"):       # the system base, however it is spelled (alias resolved by engine/alpha)
            r = "base_mva"
        if isinstance(expr.op, ast.Div) and r == "base_mva":
            return expr.left, "/base_mva"
        if isinstance(expr.op, ast.Mult) and r in ("deg2rad", "rad2deg", "base_mva"):
            return expr.left, "*" + r
    return expr, ""


def import_table(fn):
    """(section, col) -> {(Model, param): scale} from mpc2system."""
    table = {}
    for lp in sorted([n for n in walk_noscope(fn) if isinstance(n, ast.For)], key=lambda x: x.lineno):
        m = Q.match("mpc[$sec]", lp.iter)
        if not m or not isinstance(lp.target, ast.Name):
            continue
        sec = ast.literal_eval(m["sec"])
        row = lp.target.id
        local = {}
        via_bus = {}
        for n in ast.walk(lp):
            if isinstance(n, ast.Assign) and len(n.targets) == 1 and isinstance(n.targets[0], ast.Name):
                core, sc = _scale(n.value)
                if isinstance(core, ast.Call) and dotted(core.func) == "int" and core.args:
                    core = core.args[0]
                if isinstance(core, ast.IfExp):       # `data[k] if <cond on data[k]> else <nominal>`
                    core = core.body
                mm = Q.match("%s[$k]" % row, core)
                if mm is not None and isinstance(mm["k"], ast.Constant):
                    local.setdefault(n.targets[0].id, (mm["k"].value, sc))
                elif isinstance(core, ast.Name) and core.id in local and sc:
                    local[n.targets[0].id] = (local[core.id][0], sc)
        # values taken from an already imported bus field: `a0 = system.Bus.a0.v[uid]` carries that field's source column
        for n in ast.walk(lp):
            if isinstance(n, ast.Assign) and len(n.targets) == 1 and isinstance(n.targets[0], ast.Name):
                mm = Q.match("system.Bus.$p.v[$u]", n.value)
                if mm is not None:
                    for (sec2, col2), dests in list(table.items()):
                        if ("Bus", mm["p"]) in dests:
                            via_bus[n.targets[0].id] = (sec2, col2, dests[("Bus", mm["p"])])
        for c in ast.walk(lp):
            if isinstance(c, ast.Call) and dotted(c.func) == "system.add" and c.args and isinstance(c.args[0], ast.Constant):
                model = c.args[0].value
                for kw in c.keywords:
                    if isinstance(kw.value, ast.Name) and kw.value.id in local:
                        col, sc = local[kw.value.id]
                        table.setdefault((sec, col), {})[(model, kw.arg)] = sc
                    elif isinstance(kw.value, ast.Name) and kw.value.id in via_bus:
                        sec2, col2, sc = via_bus[kw.value.id]
                        table.setdefault((sec2, col2), {})[(model, kw.arg)] = sc
    return table


def export_table(fn):
    """[(section, col, Model, param, scale, subscript text, node)] from system2mpc."""
    alias = {}
    out = []
    for n in walk_noscope(fn):
        if isinstance(n, ast.Assign) and len(n.targets) == 1:
            m = Q.match("mpc[$sec]", n.value)
            if m and isinstance(n.targets[0], ast.Name):
                alias[n.targets[0].id] = ast.literal_eval(m["sec"])
    for n in walk_noscope(fn):
        if isinstance(n, ast.Assign) and len(n.targets) == 1 and isinstance(n.targets[0], ast.Subscript):
            t = n.targets[0]
            base = dotted(t.value)
            if base in alias and isinstance(t.slice, ast.Tuple) and len(t.slice.elts) == 2 and isinstance(t.slice.elts[1], ast.Constant):
                col = t.slice.elts[1].value
                core, sc = _scale(n.value)
                mw = Q.match("np.where($c, $x, $d)", core)
                if mw is not None:
                    # conditional export: the parameter is written only where the condition holds
                    core, sc2 = _scale(mw["x"])
                    sc = (sc or sc2) + "|only where " + src(mw["c"])
                if isinstance(core, ast.Call) and dotted(core.func) == "to_busid" and core.args:
                    core = core.args[0]
                d = dotted(core) or ""
                parts = d.split(".")
                if len(parts) == 4 and parts[0] == "system" and parts[3] == "v":
                    out.append((alias[base], col, parts[1], parts[2], sc, src(t.slice.elts[0]), n))
                else:
                    out.append((alias[base], col, None, src(n.value), sc, src(t.slice.elts[0]), n))
    # accumulating form: np.add.at(sec[:, k], pos, system.M.p.v * scale)
    for c in calls_in(fn):
        if dotted(c.func) == "np.add.at" and len(c.args) == 3:
            m = Q.match("$sec[:, $k]", c.args[0])
            if m and dotted(m["sec"]) in alias and isinstance(m["k"], ast.Constant):
                core, sc = _scale(c.args[2])
                parts = (dotted(core) or "").split(".")
                if len(parts) == 4 and parts[0] == "system" and parts[3] == "v":
                    out.append((alias[dotted(m["sec"])], m["k"].value, parts[1], parts[2], sc, "add.at:" + src(c.args[1]), c))
    return out


def rule_mpc(ctx, repo, models):
    imp = F.function(repo, MPC, "mpc2system")
    exp = F.function(repo, MPC, "system2mpc")
    it = import_table(imp.fn)
    et = export_table(exp.fn)
    if len(it) < 20 or len(et) < 30:
        raise AnalysisError("MATPOWER column tables not recognised (import %d, export %d entries)" % (len(it), len(et)))
    ctx.anchor("mpc import table: %d columns; export table: %d writes" % (len(it), len(et)))
    for sec, col, model, param, sc, sub, node in et:
        if model is None:
            continue
        c = "%s[:, %d] <- %s.%s" % (sec, col, model, param)
        back = it.get((sec, col), {})
        # the same parameter must be read back from that column with the inverse scale (PV/Slack share the gen table)
        key = (model, param)
        if "|only where " in (sc or ""):
            ctx.violation("C13.mpc-inverse", c, "the export writes %s.%s %s (else a constant), the import reads the column unconditionally: "
                          "devices for which the condition is false come back with another value" % (model, param, sc.split("|", 1)[1]), exp.W(node))
            continue
        if key not in back:
            others = sorted("%s.%s" % k for k in back)
            if param in ("idx",) or (sec == "bus" and col == 0):
                ctx.ok("C13.mpc-inverse", c, "bus identifier column", exp.W(node), nontrivial=False)
                continue
            ctx.violation("C13.mpc-inverse", c, "exported column %s[%d] is re-imported into %s, not into %s.%s: the export does not "
                          "re-import to an equivalent system" % (sec, col, others or "nothing", model, param), exp.W(node))
            continue
        want = INV.get(back[key])
        ctx.check(sc == want, "C13.mpc-inverse", c, "import scale `%s`, export scale `%s`" % (back[key] or "1", sc or "1"),
                  "import reads %s[%d] with `%s` but export writes it with `%s` (not inverse)" % (sec, col, back[key] or "1", sc or "1"), exp.W(node))
    # bus type codes: 2 <-> PV, 3 <-> Slack
    ok = Q.has("bus[$p, 1] = 2", exp.fn) and Q.has("bus[$p, 1] = 3", exp.fn) and Q.has("bus[:, 1] = 1", exp.fn)
    t = [n for n in walk_noscope(imp.fn) if isinstance(n, ast.If) and Q.match("ty == 3", n.test)]
    ctx.check(ok and bool(t), "C13.mpc-inverse", "bus type codes", "1=PQ, 2=PV, 3=slack on both sides", "bus type coding differs between import and export", exp.W())

    # many-to-one scatter: additive quantities must accumulate
    for sec, col, model, param, sc, sub, node in et:
        if model is None or sub == ":" or sub.startswith(":") or sub.endswith(":") or sub.startswith("add.at:"):
            continue
        # subscript derived from idx2uid(<Model>.bus.v): device -> bus, many-to-one unless the device is unique per bus
        d = None
        for n in walk_noscope(exp.fn):
            if isinstance(n, ast.Assign) and dotted(n.targets[0]) == sub:
                d = n.value
        if d is None or Q.match("system.Bus.idx2uid(system.%s.bus.v)" % model, d) is None:
            continue
        # MATPOWER bus columns Pd, Qd, Gs, Bs are bus totals of all loads / shunts at the bus (format definition)
        additive = (sec, col) in {("bus", 2), ("bus", 3), ("bus", 4), ("bus", 5)}
        c = "%s[%s, %d] = %s.%s" % (sec, sub, col, model, param)
        if not additive:
            ctx.ok("C13.scatter", c, "non-additive quantity (set-point / code): plain assignment is fine", exp.W(node), nontrivial=False)
            continue
        ctx.violation("C13.scatter", c, "several %s devices on one bus share the index %s; the plain fancy-index assignment keeps only "
                      "the last one's %s, the additive quantity must be accumulated (np.add.at)" % (model, sub, param), exp.W(node))
    # accumulate idiom present?
    acc = [c for c in calls_in(exp.fn) if dotted(c.func) == "np.add.at"]
    for c in acc:
        t = c.args[0]
        ctx.ok("C13.scatter", "np.add.at(%s, %s, ...)" % (src(t), src(c.args[1])), "accumulating scatter", exp.W(c))
    ctx.count("mpc_export_writes", len(et))


def rule_mpc_branch(ctx, repo):
    """MATPOWER branch record: ratio 0 means tap 1; the shift angle applies whenever it is non-zero. Evaluate the branch
    classification of mpc2system over {ratio: 0, 1, other} x {angle: 0, non-zero}."""
    from engine.ordertype import Interp, Unsupported
    imp = F.function(repo, MPC, "mpc2system")
    target = None
    for lp in [n for n in walk_noscope(imp.fn) if isinstance(n, ast.For)]:
        m = Q.match("mpc[$sec]", lp.iter)
        if m and ast.literal_eval(m["sec"]) == "branch":
            for st in lp.body:
                if isinstance(st, ast.If) and "data[8]" in src(st.test):
                    target = (lp, st)
    if target is None:
        raise AnalysisError("mpc2system: branch transformer classification vanished")
    lp, st = target
    tapn = phin = None
    for c in ast.walk(lp):
        if isinstance(c, ast.Call) and dotted(c.func) == "system.add" and c.args and getattr(c.args[0], "value", None) == "Line":
            kw = {k.arg: k.value for k in c.keywords}
            tapn, phin = src(kw.get("tap")), src(kw.get("phi"))
    bad = []
    for ratio in (0.0, 1.0, 1.05):
        for ang in (0.0, 10.0):
            class Row(dict):
                pass
            env = {"deg2rad": 0.5}
            it = Interp(env)
            # data[k] lookups: provide through a tiny override
            vals = {8: ratio, 9: ang}

            def ev(n):
                if isinstance(n, ast.Subscript) and dotted(n.value) == lp.target.id and isinstance(n.slice, ast.Constant):
                    return vals[n.slice.value]
                if isinstance(n, ast.Compare):
                    l = ev(n.left)
                    r = ev(n.comparators[0])
                    op = n.ops[0]
                    if isinstance(op, ast.In):
                        return l in r
                    if isinstance(op, ast.NotIn):
                        return l not in r
                    return {ast.Eq: l == r, ast.NotEq: l != r, ast.Lt: l < r, ast.Gt: l > r, ast.LtE: l <= r, ast.GtE: l >= r}[type(op)]
                if isinstance(n, ast.BoolOp):
                    vs = [ev(v) for v in n.values]
                    return all(vs) if isinstance(n.op, ast.And) else any(vs)
                if isinstance(n, ast.UnaryOp) and isinstance(n.op, ast.Not):
                    return not ev(n.operand)
                if isinstance(n, (ast.Tuple, ast.List)):
                    return [ev(e) for e in n.elts]
                if isinstance(n, ast.Constant):
                    return n.value
                if isinstance(n, ast.BinOp) and isinstance(n.op, ast.Mult):
                    return ev(n.left) * ev(n.right)
                if isinstance(n, ast.Name):
                    if n.id in loc:
                        return loc[n.id]
                    if n.id == "deg2rad":
                        return 0.5
                if isinstance(n, ast.IfExp):
                    return ev(n.body) if ev(n.test) else ev(n.orelse)
                raise Unsupported(src(n))
            loc = {}
            try:
                # statements before the If that define helper locals from data[8]/data[9]
                for pre in lp.body:
                    if pre is st:
                        break
                    if isinstance(pre, ast.Assign) and isinstance(pre.targets[0], ast.Name) and ("data[8]" in src(pre.value) or "data[9]" in src(pre.value)):
                        loc[pre.targets[0].id] = ev(pre.value)
                body = st.body if ev(st.test) else st.orelse
                for b_ in body:
                    if isinstance(b_, ast.Assign) and isinstance(b_.targets[0], ast.Name):
                        loc[b_.targets[0].id] = ev(b_.value)
            except Unsupported as ex:
                ctx.undecided("C13.mpc-branch", "mpc2system/branch", "front-end: %s" % ex, imp.W(st))
                return
            tap, phi = loc.get(tapn), loc.get(phin)
            want_tap = 1.0 if ratio == 0.0 else ratio
            want_phi = ang * 0.5
            if tap != want_tap or phi != want_phi:
                bad.append("ratio=%g angle=%g deg -> tap=%s phi=%s*deg2rad (expected tap=%g, phi=%g*deg2rad)" % (
                    ratio, ang, tap, (phi / 0.5 if isinstance(phi, (int, float)) else phi), want_tap, ang))
    ctx.check(not bad, "C13.mpc-branch", "mpc2system/branch", "6 (ratio, angle) classes: ratio 0 -> tap 1; shift angle imported whenever non-zero",
              "; ".join(bad), imp.W(st))


KINDS = ("power", "ipower", "voltage", "current", "z", "y", "r", "g", "dc_voltage", "dc_current")


def _importer_adds(repo):
    """[(file, function, Model, {key: value-node}, node)] for every device record built by the MATPOWER / PSS/E importers."""
    out = []
    for rel in (MPC, "andes/io/psse.py"):
        for fname, fn in repo.funcs.get(rel, {}).items():
            last = {}
            for n in sorted([x for x in ast.walk(fn) if isinstance(x, (ast.Assign, ast.Expr))], key=lambda x: x.lineno):
                if isinstance(n, ast.Assign) and len(n.targets) == 1 and isinstance(n.targets[0], ast.Name) and isinstance(n.value, ast.Dict):
                    last[n.targets[0].id] = ({k.value: v for k, v in zip(n.value.keys, n.value.values) if isinstance(k, ast.Constant)}, n)
                elif isinstance(n, ast.Expr) and isinstance(n.value, ast.Call):
                    c = n.value
                    d = dotted(c.func) or ""
                    if d == "system.add" and c.args and isinstance(c.args[0], ast.Constant):
                        out.append((rel, fname, c.args[0].value, {k.arg: k.value for k in c.keywords if k.arg}, c))
                    elif d.endswith(".update") and d[:-7] in last and c.args and isinstance(c.args[0], ast.Dict):
                        last[d[:-7]][0].update({k.value: v for k, v in zip(c.args[0].keys, c.args[0].values) if isinstance(k, ast.Constant)})
                    elif d.endswith(".append") and c.args and isinstance(c.args[0], ast.Name) and c.args[0].id in last:
                        m = Q.match("$o[$m].append($p)", c)
                        if m and isinstance(m["m"], ast.Constant):
                            keys, node = last[c.args[0].id]
                            out.append((rel, fname, m["m"].value, dict(keys), node))
    return out


def rule_import_bases(ctx, repo, models):
    """per-unit quantities in MATPOWER / PSS/E files are on the FILE's system base (unless a record carries its own base):
    a record that supplies base-dependent parameters (unit-flagged z/y/power/...) must also state that base as `Sn`,
    otherwise the model's default Sn (100) is assumed and every file with another system base is mis-scaled."""
    adds = _importer_adds(repo)
    if len(adds) < 10:
        raise AnalysisError("importer device records: %d recognised, >= 14 confirmed by reading" % len(adds))
    for rel, fname, model, keys, node in adds:
        if model not in models:
            continue
        flagged = sorted(k for k in keys if k in models[model].params and any(models[model].params[k].property.get(f) for f in KINDS))
        if not flagged or "Sn" not in models[model].params:
            continue
        c = "%s::%s/%s@L%d" % (rel.split("/")[-1], fname, model, node.lineno)
        ctx.check("Sn" in keys, "C13.base", c, "base-dependent %s supplied together with Sn" % flagged,
                  "%s record supplies %s (per unit on the file's system base) without `Sn`: the model default Sn = %s is used, so a file "
                  "whose system base differs from it is imported with wrongly scaled values" % (
                      model, flagged, models[model].params["Sn"].default), "%s:%d" % (rel, node.lineno))


# PSS/E v33 record layouts (physical columns that define the network); from the PSS/E data format documentation
RAW_REQUIRED = {
    "_parse_bus_v33": {0: "I", 2: "BASKV", 3: "IDE", 7: "VM", 8: "VA"},
    "_parse_load_v33": {0: "I", 2: "STATUS", 5: "PL", 6: "QL", 7: "IP", 8: "IQ", 9: "YP", 10: "YQ"},
    "_parse_fshunt_v33": {0: "I", 2: "STATUS", 3: "GL", 4: "BL"},
    "_parse_gen_v33": {0: "I", 2: "PG", 3: "QG", 4: "QT", 5: "QB", 6: "VS", 8: "MBASE", 14: "STAT", 16: "PT", 17: "PB"},
    "_parse_line_v33": {0: "I", 1: "J", 3: "R", 4: "X", 5: "B", 9: "GI", 10: "BI", 11: "GJ", 12: "BJ", 13: "ST"},
}


def rule_raw_columns(ctx, repo):
    rel = "andes/io/psse.py"
    for fname, req in RAW_REQUIRED.items():
        fn = repo.func(rel, fname)
        read = set()
        for n in ast.walk(fn):
            if isinstance(n, ast.Subscript) and dotted(n.value) == "data" and isinstance(n.slice, ast.Constant) and isinstance(n.slice.value, int):
                read.add(n.slice.value)
        missing = {k: v for k, v in req.items() if k not in read}
        ctx.check(not missing, "C13.raw-columns", fname, "all %d physical columns of the record are read" % len(req),
                  "physical columns %s of the PSS/E record are never read: that part of the source data is silently dropped" % (
                      ", ".join("%s(%d)" % (v, k) for k, v in sorted(missing.items()))), "%s:%d" % (rel, fn.lineno))


# reference conversion formulas for PSS/E v33 records (MW/Mvar at 1 p.u. voltage -> per unit on the system base);
# constant-current and constant-admittance load parts are referred to the power-flow voltage; YQ is negative for inductive load
RAW_FORMULAS = {
    ("_parse_load_v33", "PQ"): {"p0": "(d5 + d7 * v0 + d9 * v0 ** 2) / mva", "q0": "(d6 + d8 * v0 - d10 * v0 ** 2) / mva", "u": "d2", "bus": "d0"},
    ("_parse_fshunt_v33", "Shunt"): {"g": "d3 / mva", "b": "d4 / mva", "u": "d2", "bus": "d0"},
    ("_parse_gen_v33", "PV"): {"p0": "d2 / mva", "q0": "d3 / mva", "qmax": "d4 / mva", "qmin": "d5 / mva", "v0": "d6", "Sn": "d8",
                               "pmax": "d16 / mva", "pmin": "d17 / mva", "u": "status", "bus": "bus"},
    ("_parse_line_v33", "Line"): {"r": "d3", "x": "d4", "b": "d5", "g1": "d9", "b1": "d10", "g2": "d11", "b2": "d12", "u": "d13",
                                  "bus1": "d0", "bus2": "d1"},
}


def rule_raw_formulas(ctx, repo):
    import sympy as sp
    from engine.pyexpr import to_sympy, PyExprError
    adds = {(f, m): (keys, node) for rel, f, m, keys, node in _importer_adds(repo) if rel.endswith("psse.py")}
    for (fname, model), ref in RAW_FORMULAS.items():
        if (fname, model) not in adds:
            raise AnalysisError("PSS/E importer record %s/%s not recognised" % (fname, model))
        keys, node = adds[(fname, model)]
        fn = repo.func("andes/io/psse.py", fname)
        # local aliases of data[k] (bus = data[0], status = data[14], ...)
        alias = {}
        for n in ast.walk(fn):
            if isinstance(n, ast.Assign) and len(n.targets) == 1 and isinstance(n.targets[0], ast.Name):
                m = Q.match("data[$k]", n.value)
                if m and isinstance(m["k"], ast.Constant):
                    alias[n.targets[0].id] = "d%d" % m["k"].value
        bad = []
        for k, want in ref.items():
            if k not in keys:
                bad.append("`%s` is not imported" % k)
                continue
            txt = src(keys[k])
            import re
            txt2 = re.sub(r"data\[(\d+)\]", r"d\1", txt)
            for a_, d_ in alias.items():
                txt2 = re.sub(r"\b%s\b" % a_, d_, txt2)
            want2 = want
            for a_, d_ in alias.items():
                want2 = re.sub(r"\b%s\b" % a_, d_, want2)
            try:
                # the reference writes the system base as `mva`; in the program that is (an alias of) system.config.mva
                from engine import alpha as _alpha
                ren_ = {_alpha.resolve_dotted("mva", fn): sp.Symbol("mva"), "system.config.mva": sp.Symbol("mva")}
                g_ = to_sympy(ast.parse(txt2, mode="eval").body, ren_)
                w_ = to_sympy(ast.parse(want2, mode="eval").body, ren_)
            except (PyExprError, SyntaxError):
                continue
            if sp.simplify(g_ - w_) != 0:
                bad.append("%s = %s, PSS/E definition gives %s" % (k, txt, want))
        ctx.check(not bad, "C13.raw-formulas", "%s/%s" % (fname, model), "%d fields match the record definition" % len(ref),
                  "; ".join(bad[:3]), "andes/io/psse.py:%d" % node.lineno)


def rule_roundtrip(ctx, repo):
    # readers feed every record to system.add
    for rel in ("andes/io/xlsx.py", "andes/io/json.py"):
        f = F.function(repo, rel, "read")
        ok = any(dotted(c.func) == "system.add" and len(c.args) == 2 for c in calls_in(f.fn))
        ctx.check(ok, "C13.roundtrip", "%s::read" % rel.split("/")[-1], "every record -> system.add(model, record)",
                  "reader no longer feeds each record to system.add", f.W())
    a = F.method(repo, "System", "add", SYSTEM)
    fn = a.fn
    ok = Q.has("param_dict.pop('uid', None)", fn) and Q.has("idx = param_dict.pop('idx', None)", fn)
    t = [tn for tn in a.g.nodes() if a.g.data(tn)["kind"] == "test" and "np.isnan(idx)" in src(a.g.data(tn)["ast"].test)]
    ok = ok and bool(t)
    g1 = a.calls("group.get_next_idx")
    g2 = [n for n in a.g.nodes() if a.g.data(n)["kind"] == "stmt" and Q.match("self.__dict__[model].add(idx=idx, **param_dict)", a.g.data(n)["ast"])]
    g3 = a.calls("group.add")
    ok = ok and bool(g1 and g2 and g3) and a.before(g1, g2)[0] and a.before(g2, g3)[0]
    ctx.check(ok, "C13.roundtrip", "System.add", "uid stripped, NaN idx -> None, allocate -> model.add -> group.add",
              "row-wise device add changed (uid/idx handling or allocation order)", a.W())
    ok = any(isinstance(n, ast.Raise) for n in walk_noscope(fn)) and bool(a.tests(lambda c: c.strip() == "self.is_setup"))
    ctx.check(ok, "C13.roundtrip", "System.add/after-setup", "adding after setup raises", "devices can be added after setup", a.W())
    # writers: freshness rule (C11.export instances on the io modules)
    before = len(ctx.results)
    c11.rule_export(ctx, repo)
    for r in ctx.results[before:]:
        r["rule"] = "C13.roundtrip"
    ctx.nontrivial = {(("C13.roundtrip" if k[0] == "C11.export" else k[0]), k[1]) for k in ctx.nontrivial}


def rule_registry(ctx, repo):
    mod = repo.module(IO)
    reg = {}
    for n in mod.body:
        if isinstance(n, ast.Assign) and dotted(n.targets[0]) in ("input_formats", "output_formats"):
            reg[dotted(n.targets[0])] = ast.literal_eval(n.value)
    if len(reg) != 2:
        raise AnalysisError("io format registries vanished")
    for fmt in reg["input_formats"]:
        rel = "andes/io/%s.py" % fmt
        fs = repo.funcs.get(rel, {})
        ctx.check("read" in fs and "testlines" in fs, "C13.registry", "input_formats[%s]" % fmt, "module defines read and testlines",
                  "registered input format %s lacks read()/testlines()" % fmt, rel)
    for fmt in reg["output_formats"]:
        rel = "andes/io/%s.py" % fmt
        ctx.check("write" in repo.funcs.get(rel, {}), "C13.registry", "output_formats[%s]" % fmt, "module defines write",
                  "registered output format %s lacks write()" % fmt, rel)


def rule_dyr(ctx, repo, models):
    import yaml
    p = os.path.join(REPO, DYR)
    if not os.path.exists(p):
        raise AnalysisError("psse-dyr.yaml vanished")
    with open(p) as f:
        y = yaml.safe_load(f)
    n = 0
    for name, ent in sorted(y.items()):
        if not isinstance(ent, dict):
            continue
        dest = ent.get("destination", name)
        n += 1
        if dest not in models:
            ctx.violation("C13.dyr", name, "destination model %s does not exist" % dest, DYR)
            continue
        m = models[dest]
        inputs = set(ent.get("inputs") or [])
        finds = ent.get("find") or {}
        gets = ent.get("get") or {}
        outs = ent.get("outputs") or {}
        bad = []
        known = inputs | set(finds) | set(gets)
        for k, expr in outs.items():
            if k not in m.params:
                bad.append("output `%s` is not a parameter of %s (value is dropped with an 'unused data' warning)" % (k, dest))
            expr = str(expr)
            # semantics of andes.io.psse.read_add: a find/get name; or "ARGS; lambda ..." with ARGS = comma list of
            # COLUMN (of this record) or PSSEMODEL.COLUMN (of another dyr record type); or a plain COLUMN name
            if expr in finds or expr in gets:
                continue
            args = expr.split(";")[0].split(",") if ";" in expr else [expr]
            for a_ in args:
                a_ = a_.strip()
                if "." in a_:
                    pm, col = a_.split(".", 1)
                    if pm not in y or col not in (y[pm].get("inputs") or []):
                        bad.append("output `%s` reads %s, but dyr record type %s has no column %s" % (k, a_, pm, col))
                elif a_ not in inputs:
                    bad.append("output `%s` reads column `%s`, which is not among the inputs of this record (KeyError while parsing)" % (k, a_))
        for fname, spec in list(finds.items()) + list(gets.items()):
            if isinstance(spec, dict):
                for mdl, flds in spec.items():
                    if mdl not in models and mdl not in {mm.group for mm in models.values()}:
                        bad.append("%s: unknown model/group %s" % (fname, mdl))
        ctx.check(not bad, "C13.dyr", name, "destination %s: %d outputs are parameters; symbols resolved" % (dest, len(outs)),
                  "; ".join(sorted(set(bad))[:4]), DYR)
    if n < 30:
        raise AnalysisError("psse-dyr.yaml: %d entries recognised, ~40 expected" % n)


def _names(expr):
    import re
    # strip string literals
    expr = re.sub(r"'[^']*'|\"[^\"]*\"", "", expr)
    return set(re.findall(r"(?<![\.\w])([A-Za-z_][A-Za-z_0-9]*)(?!\s*\()", expr)) - set(
        re.findall(r"lambda\s+([^:]*):", expr) and [x.strip() for g in re.findall(r"lambda\s+([^:]*):", expr) for x in g.split(",")])


def rule_mpc_lexer(ctx, repo):
    """MATPOWER text reader: a line recognised as the end of a matrix section is dropped.  The recognising pattern (a regex
    literal in the source) is evaluated, with the method the code uses (search/match), on witness lines that carry a data row and
    the closing bracket together -- valid MATLAB.  If it recognises them, and the branch neither parses the row first nor is
    restricted to lines without data, the last row of such a matrix is lost."""
    import re as _re
    f = F.function(repo, MPC, "m2mpc")
    pats = {}
    for st in walk_noscope(f.fn):
        if isinstance(st, ast.Assign) and len(st.targets) == 1 and isinstance(st.targets[0], ast.Name) and isinstance(st.value, ast.Call) \
                and dotted(st.value.func) == "re.compile" and st.value.args and isinstance(st.value.args[0], ast.Constant):
            pats[st.targets[0].id] = st.value.args[0].value
    witnesses = ["1 2 0.01 0.1 0.02 250 250 250 0 0 1 -360 360 ]", "1 2 0.01 0.1 0.02 250 250 250 0 0 1 -360 360]", "5 3 1.0 ]"]
    n = 0
    for t in walk_noscope(f.fn):
        if not isinstance(t, ast.If):
            continue
        c = t.test
        if isinstance(c, ast.Call) and isinstance(c.func, ast.Attribute) and c.func.attr in ("search", "match", "fullmatch") and \
                isinstance(c.func.value, ast.Name) and c.func.value.id in pats:
            closes = any(isinstance(x, ast.Assign) and dotted(x.targets[0]) == "field" and isinstance(x.value, ast.Constant) and x.value.value is None
                         for b_ in t.body for x in ast.walk(b_))
            if not closes:
                continue
            n += 1
            rx = _re.compile(pats[c.func.value.id])
            hit = [w for w in witnesses if getattr(rx, c.func.attr)(w)]
            parses = any(isinstance(x, ast.Call) and isinstance(x.func, ast.Attribute) and x.func.attr in ("append", "extend") for b in t.body for x in ast.walk(b))
            splits = any("split(']')" in src(b) or 'split("]")' in src(b) for b in t.body)
            drops = any(isinstance(x, ast.Continue) for b_ in t.body for x in ast.walk(b_))
            ok = not hit or parses or splits or not drops
            ctx.check(ok, "C13.mpc-lexer", "m2mpc/section-end", "the section-end pattern %r does not swallow a data row" % pats[c.func.value.id],
                      "the pattern %r (.%s) also recognises `%s` -- a data row with the closing bracket on the same line -- and the branch drops the "
                      "line: the last row of that matrix is lost" % (pats[c.func.value.id], c.func.attr, hit[0] if hit else ""), f.W(t))
    if n == 0:
        ctx.undecided("C13.mpc-lexer", "m2mpc/section-end", "section-end branch not recognised", f.W())


def run(ctx):
    ctx.rule("C13.mpc-lexer", "MATPOWER text reader: the section-end pattern cannot swallow a data row (regex evaluated on witness lines)", 1)
    ctx.rule("C13.mpc-inverse", "every column written by system2mpc is read back by mpc2system into the same parameter with the "
             "inverse scale; bus type codes agree", 30)
    ctx.rule("C13.mpc-branch", "branch records: tap/shift classification evaluated over all (ratio, angle) classes", 1)
    ctx.rule("C13.base", "importer records with base-dependent parameters state the file's system base as Sn", 5)
    ctx.rule("C13.raw-formulas", "PSS/E records: imported values == the record definition (columns, MW->p.u., ZIP load referral, YQ sign)", 4)
    ctx.rule("C13.raw-columns", "PSS/E v33 record layouts: every physical column is read", 5)
    ctx.rule("C13.scatter", "cardinality-typed dataflow: additive quantities scattered through a device->bus index must accumulate", 2)
    ctx.rule("C13.roundtrip", "xlsx/json: writers emit the refreshed input-base view; readers feed every record to System.add; "
             "System.add allocation order", 7)
    ctx.rule("C13.registry", "registered formats define their reader/writer entry points", 6)
    ctx.rule("C13.dyr", "every psse-dyr.yaml entry: destination exists, outputs are parameters of it, expression symbols resolve", 30)
    ctx.assume("agreement of RAW parsing with an independent reading of the source file and equality of power-flow results "
               "after a round trip are declined (testing)")
    repo = Repo()
    models = elab.load_models()
    rule_mpc(ctx, repo, models)
    rule_mpc_branch(ctx, repo)
    rule_mpc_lexer(ctx, repo)
    from rules import c13_numtype, c13_sysbase, c13_3w
    c13_3w.run_rule(ctx, repo)
    ctx.rule("C13.numeric-type", "data corrections independent of the numeric representation (int / float / NumPy scalar)", 1)
    c13_numtype.run_rule(ctx, repo)
    c13_sysbase.run_rule(ctx, repo)
    rule_import_bases(ctx, repo, models)
    rule_raw_columns(ctx, repo)
    rule_raw_formulas(ctx, repo)
    rule_roundtrip(ctx, repo)
    rule_registry(ctx, repo)
    rule_dyr(ctx, repo, models)
