"""C05.reinit -- the dynamic initialisation does not depend on what an earlier initialisation left behind.

Model.init writes most initial values by assignment, but values declared with `v_str_add` are ADDED in place (`instance.v[:] += ...`:
a voltage compensator sets one part of the exciter input, the exciter adds the bus-voltage part).  `instance.v` is a view of dae.x / dae.y,
so the result is the declared sum only if the array was cleared first.  Rule: if Model.init accumulates into variable values, every path
of TDS.init to `system.init(...)` passes a whole-array definition of dae.x and of dae.y (a statement `<dae>.y[:] = <constant>` or a call
of a DAE method that does that for the array)."""
import ast

from engine.pysrc import F, dotted, src
from engine.cfg import walk_noscope

TDS = "andes/routines/tds.py"
MODEL = "andes/core/model/model.py"
DAE = "andes/variables/dae.py"


def _whole_clear(st, arr, base_ok):
    """`<base>.<arr>[:] = <constant>`"""
    if not isinstance(st, ast.Assign) or len(st.targets) != 1:
        return False
    t = st.targets[0]
    if not (isinstance(t, ast.Subscript) and isinstance(t.slice, ast.Slice) and t.slice.lower is None and t.slice.upper is None):
        return False
    d = dotted(t.value) or ""
    return base_ok(d) and d.endswith("." + arr) and isinstance(st.value, ast.Constant) and isinstance(st.value.value, (int, float))


def run_rule(ctx, repo):
    mi = F.method(repo, "Model", "init", MODEL)
    acc = [st for st in walk_noscope(mi.fn) if isinstance(st, ast.AugAssign) and isinstance(st.op, ast.Add)
           and (dotted(st.target.value if isinstance(st.target, ast.Subscript) else st.target) or "").endswith(".v")]
    ti = F.method(repo, "TDS", "init", TDS)
    if not acc:
        ctx.ok("C05.reinit", "TDS.init/cleared-before-accumulation", "Model.init assigns every initial value (no in-place accumulation)", mi.W(), nontrivial=False)
        return
    calls = ti.calls("system.init")
    if not calls:
        ctx.undecided("C05.reinit", "TDS.init/cleared-before-accumulation", "the call of System.init in TDS.init is not recognised", ti.W())
        return
    dae_ci = repo.cls("DAE", DAE)
    clearing_methods = {"x": set(), "y": set()}
    for name, fn in dae_ci.methods.items():
        for arr in ("x", "y"):
            if any(_whole_clear(st, arr, lambda d: d.startswith("self.")) for st in walk_noscope(fn)):
                clearing_methods[arr].add(name)
    # one level of delegation (clear_arrays -> clear_xy)
    for name, fn in dae_ci.methods.items():
        for arr in ("x", "y"):
            for c in ast.walk(fn):
                if isinstance(c, ast.Call) and (dotted(c.func) or "").startswith("self.") and (dotted(c.func) or "")[5:] in clearing_methods[arr] and name != "reset":
                    clearing_methods[arr].add(name)
    bad = []
    for arr in ("x", "y"):
        nodes = []
        for n in ti.g.nodes():
            d = ti.g.data(n)
            if d["kind"] != "stmt":
                continue
            if _whole_clear(d["ast"], arr, lambda dd: dd.endswith("dae." + arr)):
                nodes.append(n)
            for c in ast.walk(d["ast"]):
                if isinstance(c, ast.Call) and isinstance(c.func, ast.Attribute) and (dotted(c.func.value) or "").endswith("dae") \
                        and c.func.attr in clearing_methods[arr]:
                    nodes.append(n)
        ok, pth = ti.g.must_pass(ti.g.entry, calls[0], nodes) if nodes else (False, None)
        if not ok:
            bad.append("dae.%s" % arr)
    ctx.check(not bad, "C05.reinit", "TDS.init/cleared-before-accumulation",
              "dae.x and dae.y are cleared on every path to System.init (Model.init adds `v_str_add` values in place: `%s`)" % src(acc[0])[:60],
              "TDS.init reaches System.init without clearing %s, and Model.init accumulates in place (`%s`): a repeated initialisation "
              "(TDS.reset(); TDS.init()) adds the initial values to those of the previous one -- exciter inputs are doubled and the "
              "initialisation test fails" % (" and ".join(bad), src(acc[0])[:70]), ti.W(calls[0]))
