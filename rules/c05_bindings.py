"""C05.bindings -- what a discrete component (limiter, switch, anti-windup) is bound to is an object the model evaluates.

Discrete components keep references to the parameter / service / variable objects given to their constructors (`lower`, `upper`, `u`,
`bound`, ...).  A model evaluates the objects in its registries.  If a subclass replaces a registered object under the same name
(`delattr` + a new ConstService) after a block was built with the old one, the block keeps the OLD object, which nobody evaluates any more
(its value stays 0): an anti-windup limiter then clamps to [0, 0] while the residual test of the pegged state is reset before the
initialisation test.  Rule, on the elaborated models (constructors only): for every object attribute of every discrete component that
carries a name, the model's registered object of that name IS that object."""
from engine.elab import locate


def run_rule(ctx, models):
    from andes.core.param import BaseParam
    from andes.core.service import BaseService
    from andes.core.var import BaseVar
    n = 0
    for name, m in models.items():
        reg = {}
        for d in (m.params, m.params_ext, m.services, m.services_ext, m.services_ops, getattr(m.cache, "all_vars", {}),
                  getattr(m, "services_ref", {}), getattr(m, "services_var", {})):
            reg.update(d)
        bad = []
        comps = list(m.discrete.items())
        # blocks (recursively) hold the same kind of references
        from andes.core.block import Block

        def blocks_of(obj, prefix, seen):
            if id(obj) in seen:
                return
            seen.add(id(obj))
            for k_, v_ in vars(obj).items():
                if isinstance(v_, Block):
                    yield prefix + k_, v_
                    yield from blocks_of(v_, prefix + k_ + ".", seen)
        comps += list(blocks_of(m, "", set()))
        for dn, disc in comps:
            for an, obj in vars(disc).items():
                if isinstance(disc, Block) and getattr(obj, "owner", None) is not m:
                    continue
                if not (isinstance(obj, (BaseParam, BaseService, BaseVar)) and getattr(obj, "name", None)):
                    continue
                n += 1
                cur = reg.get(obj.name, m.__dict__.get(obj.name))
                if cur is not None and cur is not obj:
                    bad.append("%s.%s is bound to a %s named `%s` that is no longer the model's `%s` (now a %s)" % (
                        dn, an, type(obj).__name__, obj.name, obj.name, type(cur).__name__))
        if bad or comps:
            ctx.check(not bad, "C05.bindings", name, "every named object a discrete component refers to is the model's registered object of that name",
                      "; ".join(bad[:2]) + " -- the old object is never evaluated (value 0): the limiter works with limits [0, 0] and the model starts "
                      "off its equilibrium while the initialisation test passes", locate(m, list(m.discrete)[0]) if m.discrete else "")
    ctx.count("discrete_bindings", n)
