"""C17.success/<caller>/solver-exceptions -- every way a library solver reports failure is turned into the routine's false flag.

Library contract table (from the libraries' documentation, the same kind of table as the in-place contract of C16): the exceptions a
solver raises for "no valid result".  Every call site of such a solver inside a routine sits in a `try` whose handlers cover every listed
exception (by that class, a base class of it, or a bare except), and each covering handler sets the routine's success flag to False and
does not re-raise.  An exception that escapes leaves no flag and no exit code."""
import ast

from engine import astq as Q
from engine.pysrc import dotted, src
from engine.cfg import walk_noscope

# solver -> exceptions that mean "did not reach a result" (scipy.optimize.newton_krylov: NoConvergence unless raise_exception=False;
# ValueError for a Jacobian / residual it cannot work with)
CONTRACT = {"newton_krylov": ("NoConvergence", "ValueError")}
BASES = {"NoConvergence": {"NoConvergence", "Exception", "BaseException"}, "ValueError": {"ValueError", "Exception", "BaseException"}}


def run_rule(ctx, repo):
    n = 0
    for cname, cl in repo.classes.items():
        for ci in cl:
            if not ci.path.startswith("andes/routines/"):
                continue
            for mname, fn in ci.methods.items():
                for t in [x for x in walk_noscope(fn) if isinstance(x, ast.Try)]:
                    for c in [x for b in t.body for x in ast.walk(b) if isinstance(x, ast.Call)]:
                        solver = (dotted(c.func) or "").split(".")[-1]
                        if solver not in CONTRACT or (dotted(c.func) or "").startswith("self."):
                            continue
                        n += 1
                        if any(k.arg == "raise_exception" and isinstance(k.value, ast.Constant) and k.value.value is False for k in c.keywords):
                            need = [e for e in CONTRACT[solver] if e != "NoConvergence"]
                        else:
                            need = list(CONTRACT[solver])
                        missing, weak = [], []
                        for exc in need:
                            hs = []
                            for h in t.handlers:
                                names = ["BaseException"] if h.type is None else [
                                    (dotted(x) or "").split(".")[-1] for x in (h.type.elts if isinstance(h.type, ast.Tuple) else [h.type])]
                                if set(names) & BASES[exc]:
                                    hs.append(h)
                            if not hs:
                                missing.append(exc)
                                continue
                            h = hs[0]
                            sets_false = any(isinstance(x, ast.Assign) and Q.match("self.converged = False", x) for b in h.body for x in ast.walk(b))
                            reraises = any(isinstance(x, ast.Raise) for b in h.body for x in ast.walk(b))
                            if not sets_false or reraises:
                                weak.append(exc)
                        ctx.check(not missing and not weak, "C17.success", "%s.%s/solver-exceptions" % (ci.name, mname),
                                  "every failure exception of %s (%s) is handled by setting converged = False" % (solver, ", ".join(need)),
                                  "%s is called in %s.%s but %s: a power flow that does not converge raises out of the routine -- no success flag, "
                                  "exit code untouched" % (solver, ci.name, mname,
                                                           ("%s is not caught" % ", ".join(missing)) if missing else
                                                           ("the handler of %s does not set converged = False" % ", ".join(weak))), repo.W(ci, c))
                # calls outside any try
                for c in [x for x in walk_noscope(fn) if isinstance(x, ast.Call)]:
                    solver = (dotted(c.func) or "").split(".")[-1]
                    if solver in CONTRACT and not (dotted(c.func) or "").startswith("self."):
                        in_try = any(any(y is c for b in t.body for y in ast.walk(b)) for t in walk_noscope(fn) if isinstance(t, ast.Try))
                        if not in_try:
                            n += 1
                            ctx.violation("C17.success", "%s.%s/solver-exceptions" % (ci.name, mname),
                                          "%s is called outside any try: its failure exceptions %s escape the routine" % (solver, CONTRACT[solver]), repo.W(ci, c))
    if n == 0:
        ctx.ok("C17.success", "solver-exceptions", "no routine calls a solver of the contract table", "", nontrivial=False)
