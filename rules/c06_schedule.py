"""C06.schedule -- the event schedule stays sorted and the event pointer stays valid when the schedule is rebuilt.

`TDS._switch_idx` walks `System.switch_times` in order (calc_h cuts the step at `switch_times[_switch_idx]`, do_switch dispatches when the
clock equals it).  Both are only right for a sorted array without stale entries, and for a pointer that belongs to the array it indexes.

  /fresh    the dict whose keys become `switch_times` in System.store_switch_times is created in that function, before it is filled
            (a dict that persists across calls keeps the times of earlier calls, in insertion order: unsorted, stale);
  /sorted   it is filled in the order of the sorted time array;
  /pointer  every call of store_switch_times made outside the initialisation (the refresh in do_switch) is followed, before the pointer
            is read again, by an assignment of the pointer."""
import ast

from engine import astq as Q
from engine.pysrc import F, dotted, src
from engine.cfg import walk_noscope

TDS = "andes/routines/tds.py"
SYSTEM = "andes/system.py"


def run_rule(ctx, repo):
    s = F.method(repo, "System", "store_switch_times", SYSTEM)
    fn = s.fn
    # the attribute that becomes switch_times
    src_attr = None
    for st in walk_noscope(fn):
        if isinstance(st, ast.Assign) and dotted(st.targets[0]) == "self.switch_times":
            for x in ast.walk(st.value):
                if isinstance(x, ast.Attribute) and (dotted(x) or "").startswith("self.") and dotted(x) != "self.switch_times":
                    src_attr = dotted(x)
            if src_attr is None and isinstance(st.value, ast.Name):
                src_attr = st.value.id
    if src_attr is None:
        ctx.undecided("C06.schedule", "System.store_switch_times/fresh", "the construction of switch_times is not recognised", s.W())
        return
    if not src_attr.startswith("self."):
        ctx.ok("C06.schedule", "System.store_switch_times/fresh", "switch_times is assigned from the local `%s`" % src_attr, s.W())
    else:
        fills = [n for n in s.g.nodes() if s.g.data(n)["kind"] == "stmt" and any(
            isinstance(x, ast.Subscript) and isinstance(x.ctx, ast.Store) and dotted(x.value) == src_attr for x in ast.walk(s.g.data(n)["ast"]))]
        news = [n for n in s.g.nodes() if s.g.data(n)["kind"] == "stmt" and isinstance(s.g.data(n)["ast"], ast.Assign)
                and dotted(s.g.data(n)["ast"].targets[0]) == src_attr]
        ok = bool(fills) and bool(news) and all(s.g.must_pass(s.g.entry, f_, news)[0] for f_ in fills)
        ctx.check(ok, "C06.schedule", "System.store_switch_times/fresh", "`%s` is created in the function before it is filled" % src_attr,
                  "`%s`, whose keys become `switch_times`, persists across calls and is only added to: a second call (TDS.config.refresh_event, "
                  "a re-initialised simulation) appends the new times after the old ones -- the schedule is unsorted and keeps stale times, "
                  "the event pointer walks it in that order and the clock is set backwards" % src_attr, s.W(fills[0]) if fills else s.W())
    # filled in the order of a sorted array
    sorted_names = set()
    for st in walk_noscope(fn):
        if isinstance(st, ast.Assign) and isinstance(st.targets[0], ast.Name):
            v = st.value
            txt = src(v)
            if "argsort" in txt or "np.sort(" in txt or txt.startswith("sorted("):
                sorted_names.add(st.targets[0].id)
    # propagate: x = x[idx] where idx derived from argsort / where (order preserving selection)
    changed = True
    while changed:
        changed = False
        for st in walk_noscope(fn):
            if isinstance(st, ast.Assign) and isinstance(st.targets[0], ast.Name) and st.targets[0].id not in sorted_names:
                names = {x.id for x in ast.walk(st.value) if isinstance(x, ast.Name)}
                if names & sorted_names and isinstance(st.value, (ast.Subscript, ast.ListComp)):
                    sorted_names.add(st.targets[0].id)
                    changed = True
    ok = False
    for lp in [n for n in walk_noscope(fn) if isinstance(n, ast.For)]:
        it_names = {x.id for x in ast.walk(lp.iter) if isinstance(x, ast.Name)}
        fills_here = any(isinstance(x, ast.Subscript) and isinstance(x.ctx, ast.Store) and (dotted(x.value) == src_attr) for x in ast.walk(lp))
        if fills_here and it_names and it_names <= sorted_names | {"zip", "enumerate"}:
            ok = True
    if src_attr.startswith("self."):
        ctx.check(ok, "C06.schedule", "System.store_switch_times/sorted", "the schedule is filled in the order of the sorted time array",
                  "the fill loop of `%s` does not iterate over the sorted times" % src_attr, s.W())

    # pointer re-positioned after every rebuild outside init
    ds = F.method(repo, "TDS", "do_switch", TDS)
    rebuilds = ds.calls("system.store_switch_times")
    if not rebuilds:
        ctx.ok("C06.schedule", "TDS.do_switch/pointer", "do_switch does not rebuild the schedule", ds.W(), nontrivial=False)
        return
    reads = [n for n in ds.g.nodes() if ds.g.data(n)["kind"] in ("stmt", "test") and any(
        isinstance(x, ast.Attribute) and dotted(x) == "self._switch_idx" and isinstance(x.ctx, ast.Load) for e_ in ds.g.data(n)["expr"] for x in ast.walk(e_))]
    sets = [n for n in ds.g.nodes() if ds.g.data(n)["kind"] == "stmt" and isinstance(ds.g.data(n)["ast"], ast.Assign)
            and dotted(ds.g.data(n)["ast"].targets[0]) == "self._switch_idx"]
    bad = []
    for r in rebuilds:
        for rd in reads:
            if rd in sets:
                continue
            if ds.g.reachable(r, rd) and not ds.g.must_pass(r, rd, sets)[0]:
                bad.append(rd)
    ctx.check(not bad, "C06.schedule", "TDS.do_switch/pointer", "after the schedule is rebuilt the event pointer is re-positioned before it is read",
              "do_switch rebuilds `switch_times` (refresh_event) and then reads `self._switch_idx` (L%s) that still refers to the previous array"
              % (ds.g.line(bad[0]) if bad else ""), ds.W(bad[0]) if bad else ds.W())


def owners_rule(ctx, repo):
    """who may write the schedule: `switch_times`, `switch_dict` and `n_switches` are written by System.__init__ and
    System.store_switch_times only (every event time >= the current time is in the schedule; a routine that trims or edits it -- e.g. to the
    end time known at initialisation -- loses the events of a later resumed segment)."""
    attrs = ("switch_times", "switch_dict", "n_switches")
    bad = []
    for cname, cl in repo.classes.items():
        for ci in cl:
            for mname, fn in ci.methods.items():
                if ci.name == "System" and mname in ("__init__", "store_switch_times"):
                    continue
                for st in walk_noscope(fn):
                    tg = st.targets if isinstance(st, ast.Assign) else ([st.target] if isinstance(st, ast.AugAssign) else [])
                    for t in tg:
                        base = t.value if isinstance(t, ast.Subscript) else t
                        if isinstance(base, ast.Attribute) and base.attr in attrs and (dotted(base) or "").split(".")[0] in ("self", "system"):
                            d = dotted(base) or ""
                            if "system" in d or ci.name == "System":
                                bad.append((ci, mname, st))
    for rel, fns in repo.funcs.items():
        for name, fn in fns.items():
            for st in walk_noscope(fn):
                tg = st.targets if isinstance(st, ast.Assign) else ([st.target] if isinstance(st, ast.AugAssign) else [])
                for t in tg:
                    base = t.value if isinstance(t, ast.Subscript) else t
                    if isinstance(base, ast.Attribute) and base.attr in attrs and "system" in (dotted(base) or ""):
                        bad.append((rel, name, st))
    ctx.check(not bad, "C06.schedule", "schedule/writers", "switch_times / switch_dict / n_switches are written only by System.store_switch_times",
              "; ".join("`%s` in %s.%s" % (src(st)[:70], getattr(ci, "name", ci), m) for ci, m, st in bad[:2]) +
              " -- the schedule is edited outside the function that builds it: events it drops never fire in a later segment",
              repo.W(bad[0][0], bad[0][2]) if bad and not isinstance(bad[0][0], str) else "")
