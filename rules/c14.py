"""C14 -- resumed and snapshot-restored simulations equal the uninterrupted run.

Decided (typestate / ordering, necessary conditions only): the resume sentinel and the init/resume dispatch; the resume
path neither re-initialises nor rebuilds the schedule nor resets the event pointer; history unpacked after the loop;
progress bar dropped before return; snapshot save strips C objects before pickling; load imports pycode, unpickles, then
repoints the view arrays; classes with __getattr__ define __getstate__; reset order (C11). Trajectory equality is declined."""
import ast

from engine import astq as Q
from engine.cfg import walk_noscope
from engine.pysrc import Repo, F, dotted, src, calls_in
from engine.effects import Effects, fmt as fmt_effect
from rules import tdscommon
from engine.report import AnalysisError
from rules import c11

TDS = "andes/routines/tds.py"
DAE = "andes/variables/dae.py"
SNAP = "andes/utils/snapshot.py"
SYSTEM = "andes/system.py"


def rule_resume(ctx, repo):
    d = F.method(repo, "DAE", "__init__", DAE)
    # the sentinel: a NumPy scalar array holding a negative constant (any spelling of the dtype)
    ok = False
    for st_ in walk_noscope(d.fn):
        if isinstance(st_, ast.Assign) and dotted(st_.targets[0]) == "self.t" and isinstance(st_.value, ast.Call) \
                and (dotted(st_.value.func) or "").endswith("array") and st_.value.args:
            a0 = st_.value.args[0]
            val = a0.operand.value if isinstance(a0, ast.UnaryOp) and isinstance(a0.op, ast.USub) and isinstance(a0.operand, ast.Constant) else None
            ok = ok or (val is not None and val > 0)
    ctx.check(ok, "C14.resume", "DAE.__init__/sentinel", "t = -1 before any dynamic initialisation",
              "the not-yet-initialised sentinel DAE.t = -1 changed", d.W())
    r = F.method(repo, "TDS", "run", TDS)
    # decided on the truth table of the enclosing conditions (once-bound Boolean locals replaced by their definition): init() can be
    # reached only with `t < 0`, init_resume() only with `not t < 0`
    ini = r.calls("self.init")
    res = r.calls("self.init_resume")
    atom = "self.system.dae.t < 0"      # resolved form (the substituted conditions are copies without an owner function)
    ok = bool(ini and res)
    for n in ini:
        ok = ok and Q.sat_atom_values(r.fn, r.g.data(n)["ast"], atom) == {True}
    for n in res:
        ok = ok and Q.sat_atom_values(r.fn, r.g.data(n)["ast"], atom) == {False}
    ctx.check(ok, "C14.resume", "TDS.run/dispatch", "init() iff t < 0, else init_resume()",
              "a second run() call no longer resumes (or a first one no longer initialises)", r.W())
    # only sanctioned writers of a non-negative time: TDS.reset / TDS.init
    for cname, mname, pat in (("TDS", "reset", "self.system.dae.t = np.array(0.0)"), ("TDS", "init", "system.dae.t -= system.dae.t")):
        f = F.method(repo, cname, mname, TDS)
        ctx.check(Q.has(pat, f.fn), "C14.resume", "%s.%s/t0" % (cname, mname), "time set to 0 here", "time is no longer zeroed in %s" % mname, f.W())
    i = F.method(repo, "TDS", "init", TDS)
    t = i.tests(lambda c: c.strip() == "self.initialized")
    ok = bool(t) and any(i.g.guarded_by(x, t[0], "true") for x in i.returns()) and i.before(t, i.calls("self.reset"))[0]
    ctx.check(ok, "C14.resume", "TDS.init/idempotent", "initialized => return before reset()", "init() can reset an initialised simulation", i.W())
    # resume path: calc_h(resume=True) then t += h; nothing that rebuilds state
    ir = F.method(repo, "TDS", "init_resume", TDS)
    a = [n for n in ir.g.nodes() if ir.g.data(n)["kind"] == "stmt" and Q.match("self.calc_h(resume=True)", ir.g.data(n)["ast"])]
    b = tdscommon.clock_nodes(repo, ir)
    ok = bool(a and b) and ir.before(a, b)[0]
    ctx.check(ok, "C14.resume", "TDS.init_resume", "h = calc_h(resume=True); t += h", "resume no longer advances time by a freshly computed step", ir.W())
    forbidden = ("store_switch_times", "reset", "clear_ts", "init", "store_sparse_pattern", "set_address")
    bad = [src(c.func) for c in calls_in(ir.fn) if (dotted(c.func) or "").split(".")[-1] in forbidden]
    ctx.check(not bad, "C14.resume", "TDS.init_resume/no-rebuild", "no re-initialisation, schedule rebuild or history reset on resume",
              "resume path calls %s" % bad, ir.W())
    ch = F.method(repo, "TDS", "calc_h", TDS)
    w = [n for n in walk_noscope(ch.fn) if isinstance(n, (ast.Assign, ast.AugAssign)) and any(
        dotted(t_) == "self._switch_idx" for t_ in (n.targets if isinstance(n, ast.Assign) else [n.target]))]
    ctx.check(not w, "C14.resume", "TDS.calc_h/pointer", "step-size computation does not move the event pointer",
              "calc_h writes the event pointer (an event at the resume time could be skipped)", ch.W())
    t = [tn for tn in ch.g.nodes() if ch.g.data(tn)["kind"] == "test" and "resume" in src(ch.g.data(tn)["ast"].test)]
    ok = bool(t) and any(Q.match("self.deltat = self._calc_h_first()", ch.g.data(n)["ast"]) and ch.g.guarded_by(n, t[0], "true")
                         for n in ch.g.nodes() if ch.g.data(n)["kind"] == "stmt")
    ctx.check(ok, "C14.resume", "TDS.calc_h/resume-first-step", "a resumed run starts from the first-step size",
              "resume flag no longer selects the first-step computation", ch.W())
    # after the loop
    loops = [n for n in r.g.nodes() if r.g.data(n)["kind"] == "loop" and isinstance(r.g.data(n)["ast"], ast.While)]
    up = r.calls("system.dae.ts.unpack")
    ok = bool(loops and up) and r.after([loops[0]], up)[0]
    ctx.check(ok, "C14.resume", "TDS.run/unpack", "history unpacked after every run segment", "ts.unpack() no longer follows the loop", r.W())
    pb = [n for n in r.g.nodes() if r.g.data(n)["kind"] == "stmt" and Q.match("self.pbar = None", r.g.data(n)["ast"])]
    ok = bool(pb) and r.after([loops[0]], pb)[0]
    ctx.check(ok, "C14.resume", "TDS.run/pbar", "progress bar dropped before returning (system stays picklable)",
              "the progress bar object survives run(): snapshots would fail to pickle", r.W())
    # store under step_status only; summary only at t == 0
    st = r.tests(lambda c: c.strip() == "step_status")
    ok = bool(st) and all(r.g.guarded_by(n, st[0], "true") for n in r.calls("dae.store"))
    ctx.check(ok, "C14.resume", "TDS.run/store", "rows stored for accepted steps only", "dae.store() outside the accepted-step branch", r.W())


def rule_effects(ctx, repo):
    """Effect rule: the restore paths only re-link objects; they do not write the numeric content of the solver arrays.
    (The next step reads x, y AND f -- the trapezoidal rule uses the stored derivative of the previous step.)"""
    E = Effects(repo)
    for what, ci, fn, allowed in (("snapshot.save_ss", SNAP, repo.func(SNAP, "save_ss"), ()),
                                  ("snapshot.load_ss", SNAP, repo.func(SNAP, "load_ss"), ()),
                                  ("fix_view_arrays", SYSTEM, repo.func(SYSTEM, "fix_view_arrays"), ()),
                                  ("TDS.init_resume",) + repo.method("TDS", "init_resume", TDS) + (("dae.t",),)):
        ws = [w for w in E.writes(ci, fn) if w[2] not in allowed]
        ctx.check(not ws, "C14.effects", what, "no write to x/y/f/g/v/e content reachable (callee edges resolved: %d)" % E.resolved_calls,
                  "the save / restore path changes solver state: %s" % "; ".join(fmt_effect(w) for w in ws[:3]),
                  repo.W(ci, fn) if not isinstance(ci, str) else "%s:%d" % (ci, fn.lineno))


def rule_snapshot(ctx, repo):
    s = F.function(repo, SNAP, "save_ss")
    a = s.calls("system.remove_pycapsule")
    b = s.calls("dill.dump")
    ok = bool(a and b) and s.before(a, b)[0]
    ctx.check(ok, "C14.snapshot", "save_ss", "remove_pycapsule() before dill.dump", "C objects are not stripped before pickling", s.W())
    ok = all(any(k.arg == "recurse" for k in c.keywords) for c in calls_in(s.fn) if dotted(c.func) == "dill.dump")
    ctx.check(ok, "C14.snapshot", "save_ss/recurse", "dill.dump(..., recurse=True)", "dump no longer recursive", s.W())
    l = F.function(repo, SNAP, "load_ss")
    a = l.calls("import_pycode")
    b = l.calls("dill.load")
    c = l.calls("fix_view_arrays")
    ok = bool(a and b and c) and l.before(a, b)[0] and l.after(b, c)[0]
    ctx.check(ok, "C14.snapshot", "load_ss", "import_pycode -> dill.load -> fix_view_arrays",
              "snapshot load order changed (generated code not importable / views not repointed)", l.W())
    f = F.function(repo, SYSTEM, "fix_view_arrays")
    ok = Q.has("system.set_var_arrays(system.models)", f.fn)
    ok2 = any(Q.has("$m.get_inputs(refresh=True)", lp, e) for lp, e in Q.loops(f.fn, "system.models.values()", "$m"))
    ctx.check(ok and ok2, "C14.snapshot", "fix_view_arrays", "all models' variables re-bound to the DAE arrays; inputs refreshed",
              "view arrays / cached inputs are not refreshed for every model", f.W())
    r = F.method(repo, "System", "remove_pycapsule", SYSTEM)
    ok = any(Q.has("$r.solver.clear()", lp, e) for lp, e in Q.loops(r.fn, "self.routines.values()", "$r"))
    ctx.check(ok, "C14.snapshot", "System.remove_pycapsule", "every routine's solver cleared", "not every solver is cleared", r.W())
    c = F.method(repo, "SuiteSparseSolver", "clear", "andes/linsolvers/suitesparse.py")
    need = ["self.F = None", "self.N = None", "self.factorize = True"]
    ok = all(Q.has(x, c.fn) for x in need)
    ctx.check(ok, "C14.snapshot", "SuiteSparseSolver.clear", "factors dropped and refactorisation requested",
              "clear() no longer drops both factors and requests a new symbolic factorisation (stale factor after load)", c.W())
    # classes with __getattr__ define __getstate__
    n = 0
    for cl in repo.classes.values():
        for ci in cl:
            if "__getattr__" in ci.methods:
                n += 1
                ctx.check("__getstate__" in ci.methods, "C14.snapshot", "%s.__getstate__" % ci.name, "pickling protocol defined",
                          "%s defines __getattr__ without __getstate__: unpickling recurses" % ci.name, repo.W(ci, ci.node))
    if n < 2:
        raise AnalysisError("__getattr__ classes: %d found" % n)


def run(ctx):
    ctx.rule("C14.resume", "typestate: sentinel t<0; init iff t<0 else resume; resume path rebuilds nothing and does not move the event "
             "pointer; unpack and pbar cleanup after the loop", 12)
    ctx.rule("C14.snapshot", "ordering: strip C objects -> dump; import pycode -> load -> repoint views; __getstate__ present", 8)
    ctx.rule("C14.effects", "effect analysis over the resolved call graph: load_ss / fix_view_arrays / init_resume write no array content "
             "(init_resume: only dae.t)", 3)
    ctx.rule("C14.reset", "restore before setup on reset; DAE back to its constructed state (C11 rules)", 5)
    ctx.assume("trajectory equality up to discretisation error for every split point is numerical: declined; these are necessary conditions only")
    repo = Repo()
    rule_resume(ctx, repo)
    from rules import c14_views
    c14_views.run_rule(ctx, repo)
    rule_snapshot(ctx, repo)
    rule_effects(ctx, repo)
    before = len(ctx.results)
    c11.rule_reset(ctx, repo)
    for r in ctx.results[before:]:
        r["rule"] = "C14.reset"
    ctx.nontrivial = {(("C14.reset" if k[0] == "C11.reset" else k[0]), k[1]) for k in ctx.nontrivial}
