"""Materialise the kept seeded changes under /verif/seeded/<round>-<PID>-<k>/ from the agents' deliveries (/tmp/seed, /tmp/seed2) and my
confirmation records (/tmp/confirm): patch.diff (as applied to the /repo HEAD it was confirmed on), demo.py (+ helper modules the demo
imports), meta.json.  A seed is kept only if MY confirmation shows: patch applies, demo exits 0 on the unchanged tree and non-zero with the
patch, the pinned test-suite shows only the two known failures."""
import glob
import json
import os
import re
import shutil

OUT = "/verif/seeded"

# what the checks did on FIRST contact, before any rule was strengthened in response (from my session notes)
# round 3 (third-generation rules, 10 properties): filled in from the confirmation records (first contact = the confirmation run)
R3_MISSED = "C19-3 C04-3 C05-2 C06-1 C08-1 C08-2 C08-3 C13-2 C14-3 C20-2 C20-3".split()
FIRST = {
    "r1": dict(caught="C01-1 C01-2 C02-1 C02-2 C03-1 C03-2 C04-1 C04-2 C05-1 C05-2 C06-1 C09-1 C10-1 C11-2 C12-1 C12-2 C14-1 C15-1 C16-1 C16-2 "
                      "C18-1 C18-2 C19-1 C20-2".split(),
               missed="C06-2 C08-1 C08-2 C09-2 C10-2 C11-1 C13-1 C13-2 C14-2 C15-2 C17-1 C17-2 C19-2 C20-1".split()),
    "r2": dict(missed="C02-1 C02-3 C03-2 C05-2 C08-1 C08-2 C08-3 C09-1 C10-2 C12-1 C12-3 C13-2 C13-3 C15-1 C15-2 C18-3 C20-1".split()),
    "r3": dict(missed=R3_MISSED),
}


def first_contact(rnd, pid, k):
    key = "%s-%s" % (pid, k)
    if key in FIRST[rnd].get("missed", []):
        return "missed"
    return "caught"


def main():
    os.makedirs(OUT, exist_ok=True)
    kept = skipped = 0
    for rnd, base in (("r1", "/tmp/seed"), ("r2", "/tmp/seed2"), ("r3", "/tmp/seed3")):
        if not os.path.isdir(base):
            continue
        for outdir in sorted(glob.glob(base + "/C*.out")):
            pid = os.path.basename(outdir)[:-4]
            for patch in sorted(glob.glob(outdir + "/patch_*.diff")):
                if ".orig" in patch:
                    continue
                k = os.path.basename(patch)[6:-5]
                cands = ["/tmp/confirm/%s_%s_%s.json" % (rnd, pid, k)]
                if rnd == "r1":
                    cands.append("/tmp/confirm/r1first/%s_%s.json" % (pid, k))
                conf = None
                for c in cands:
                    if os.path.exists(c):
                        j = json.load(open(c))
                        if conf is None or (j.get("tests_ok") and not conf.get("tests_ok")):
                            conf = j
                sid = "%s-%s-%s" % (rnd, pid, k)
                if conf is None:
                    print("no confirmation yet:", sid)
                    skipped += 1
                    continue
                ok = conf.get("patch_applies") and conf.get("demo_clean_exit") == 0 and conf.get("demo_patched_exit") not in (0, None) \
                    and conf.get("tests_ok")
                if not ok:
                    print("NOT KEPT %s: applies=%s clean=%s patched=%s tests=%s" % (sid, conf.get("patch_applies"), conf.get("demo_clean_exit"),
                                                                               conf.get("demo_patched_exit"), conf.get("tests_ok")))
                    skipped += 1
                    continue
                d = os.path.join(OUT, sid)
                os.makedirs(d, exist_ok=True)
                shutil.copy(patch, os.path.join(d, "patch.diff"))
                demo = os.path.join(outdir, "demo_%s.py" % k)
                shutil.copy(demo, os.path.join(d, "demo.py"))
                # helper modules imported by the demo from its own directory
                text = open(demo).read()
                for m in set(re.findall(r"^\s*(?:from|import)\s+([A-Za-z_][A-Za-z_0-9]*)", text, re.M)):
                    h = os.path.join(outdir, m + ".py")
                    if os.path.exists(h):
                        shutil.copy(h, os.path.join(d, m + ".py"))
                meta_txt = os.path.join(outdir, "meta_%s.txt" % k)
                summary = open(meta_txt).read() if os.path.exists(meta_txt) else ""
                meta = dict(
                    id=sid, property=pid, round=rnd,
                    produced_by="fresh sub-agent given only the property text and a private worktree of /repo",
                    description=summary[:3000],
                    confirmed_by_me=dict(
                        demo_exit_on_unchanged_tree=conf.get("demo_clean_exit"), demo_exit_with_patch=conf.get("demo_patched_exit"),
                        demo_output_tail=(conf.get("demo_patched_tail") or "")[-400:],
                        test_suite="only the two known tests/test_pandapower failures" if conf.get("tests_ok") else "NOT OK",
                        how="tools/confirm_seed.py: fresh worktree of /repo HEAD, private HOME, demo before/after `git apply`, "
                            "`pytest -q -p no:cacheprovider --timeout=900 tests` with the patch"),
                    first_contact=first_contact(rnd, pid, k),
                    note=("patch adapted to the fixed tree (original kept as patch.orig.diff)"
                          if os.path.exists(patch.replace(".diff", ".orig.diff")) else ""))
                if os.path.exists(patch.replace(".diff", ".orig.diff")):
                    shutil.copy(patch.replace(".diff", ".orig.diff"), os.path.join(d, "patch.orig.diff"))
                json.dump(meta, open(os.path.join(d, "meta.json"), "w"), indent=1)
                kept += 1
    print("kept %d, skipped %d" % (kept, skipped))


if __name__ == "__main__":
    main()
