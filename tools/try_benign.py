"""usage: try_benign.py <PID> [-a]  -- applies each /tmp/benign2/<PID>.out/patch_k.diff to a worktree at the current /repo HEAD and runs the
quick checks (own property, or all with -a).  A VIOLATION here is a FALSE ALARM (the refactoring is behaviour preserving)."""
import glob
import json
import os
import subprocess
import sys

pid = sys.argv[1]
allc = "-a" in sys.argv
wt = "/tmp/benign2/%s" % pid
out = wt + ".out"


def sh(c):
    return subprocess.run(c, shell=True, capture_output=True, text=True)


head = sh("git -C /repo rev-parse HEAD").stdout.strip()
sh("git -C %s reset -q --hard; git -C %s clean -fdq; git -C %s checkout -q --detach %s" % (wt, wt, wt, head))
man = json.load(open("/verif/MANIFEST.json"))
checks = [c["property_id"] for c in man["checks"]] if allc else ([a for a in sys.argv[2:] if a.startswith("C")] or [pid])
res = {}
for patch in sorted(glob.glob(out + "/patch_*.diff")):
    k = os.path.basename(patch)[6:-5]
    sh("git -C %s reset -q --hard" % wt)
    a = sh("git -C %s apply --whitespace=nowarn %s" % (wt, patch))
    if a.returncode != 0:
        a = sh("git -C %s apply -3 --whitespace=nowarn %s" % (wt, patch))
    if a.returncode != 0:
        sh("git -C %s reset -q --hard" % wt)
        print("== %s %s: patch does not apply on the current HEAD: %s" % (pid, k, a.stderr.strip()[:150]))
        res[k] = "no-apply"
        continue
    files = sh("git -C %s diff --stat | tail -1" % wt).stdout.strip()
    env = dict(os.environ, VERIF_REPO=wt, VERIF_CACHE=wt + ".cache", VERIF_EVIDENCE_DIR=wt + ".evid", VERIF_JOBS="8")
    alarms = []
    from concurrent.futures import ThreadPoolExecutor

    def one(c):
        e2 = dict(env, VERIF_EVIDENCE_DIR=wt + ".evid/" + c)
        return c, subprocess.run(["/verif/vcheck", c], env=e2, capture_output=True, text=True)
    # generator-based checks first (they share the pycode cache of this tree)
    first = [c for c in checks if c in ("C02",)]
    rest = [c for c in checks if c not in first]
    results = [one(c) for c in first]
    with ThreadPoolExecutor(6) as ex:
        results += list(ex.map(one, rest))
    for c, r in results:
        if r.returncode != 0:
            lines = [l.strip() for l in r.stdout.splitlines() if l.strip().startswith(("rule=", "ANALYSIS"))]
            alarms.append("%s(exit %d): %s" % (c, r.returncode, " ## ".join(x[:140] for x in lines[:3])))
    print("== %s %s (%s): %s" % (pid, k, files, "silent" if not alarms else "FALSE ALARM " + " | ".join(alarms)))
    res[k] = alarms
    sh("git -C %s reset -q --hard" % wt)
sh("rm -rf %s.cache %s.evid" % (wt, wt))
json.dump(res, open(out + "/verdicts.json", "w"), indent=1)
