"""usage: try_benign.py <PID> [-a | <check> ...]  -- applies each /verif/benign/<PID>-<k>/patch.diff to a throw-away worktree at the current
/repo HEAD and runs the quick checks (own property, the listed ones, or all with -a).  A VIOLATION here is a FALSE ALARM (the refactoring is
behaviour preserving)."""
import glob
import json
import os
import subprocess
import sys

pid = sys.argv[1]
allc = "-a" in sys.argv
wt = "/tmp/benign_wt/%s" % pid
out = wt + ".out"
os.makedirs(out, exist_ok=True)


def sh(c):
    return subprocess.run(c, shell=True, capture_output=True, text=True)


head = sh("git -C /repo rev-parse HEAD").stdout.strip()
sh("git -C /repo worktree remove --force %s; git -C /repo worktree prune" % wt)
sh("git -C /repo worktree add --detach %s %s" % (wt, head))
man = json.load(open("/verif/MANIFEST.json"))
checks = [c["property_id"] for c in man["checks"]] if allc else ([a for a in sys.argv[2:] if a.startswith("C")] or [pid])
res = {}
for patch in sorted(glob.glob("/verif/benign/%s-*/patch.diff" % pid)):
    k = os.path.basename(os.path.dirname(patch)).split("-")[1]
    sh("git -C %s reset -q --hard" % wt)
    a = sh("git -C %s apply --whitespace=nowarn %s" % (wt, patch))
    if a.returncode != 0:
        a = sh("git -C %s apply -3 --whitespace=nowarn %s" % (wt, patch))
    if a.returncode != 0:
        sh("git -C %s reset -q --hard" % wt)
        print("== %s %s: patch does not apply on the current HEAD: %s" % (pid, k, a.stderr.strip()[:150]))
        res[k] = "no-apply"
        continue
    files = sh("git -C %s diff --stat | tail -1" % wt).stdout.strip()
    env = dict(os.environ, VERIF_REPO=wt, VERIF_CACHE=wt + ".cache", VERIF_EVIDENCE_DIR=wt + ".evid", VERIF_JOBS="8")
    alarms = []
    from concurrent.futures import ThreadPoolExecutor

    def one(c):
        e2 = dict(env, VERIF_EVIDENCE_DIR=wt + ".evid/" + c)
        return c, subprocess.run(["/verif/vcheck", c], env=e2, capture_output=True, text=True)
    # generator-based checks first (they share the pycode cache of this tree)
    first = [c for c in checks if c in ("C02",)]
    rest = [c for c in checks if c not in first]
    results = [one(c) for c in first]
    with ThreadPoolExecutor(6) as ex:
        results += list(ex.map(one, rest))
    for c, r in results:
        if r.returncode != 0:
            lines = [l.strip() for l in r.stdout.splitlines() if l.strip().startswith(("rule=", "ANALYSIS"))]
            alarms.append("%s(exit %d): %s" % (c, r.returncode, " ## ".join(x[:140] for x in lines[:3])))
    print("== %s %s (%s): %s" % (pid, k, files, "silent" if not alarms else "FALSE ALARM " + " | ".join(alarms)))
    res[k] = alarms
    sh("git -C %s reset -q --hard" % wt)
sh("git -C /repo worktree remove --force %s" % wt)
sh("rm -rf %s %s.cache %s.evid %s" % (wt, wt, wt, out))
