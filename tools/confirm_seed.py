"""Confirm a seeded change delivered by a sub-agent and run the checks against it.

usage: confirm_seed.py <PID> <k> [--no-tests]
  reads /tmp/seed/<PID>.out/patch_<k>.diff, demo_<k>.py, meta_<k>.txt
  - fresh git worktree of /repo HEAD under /tmp/confirm, private HOME
  - demo on the unchanged tree must exit 0; with the patch applied must exit != 0
  - existing test-suite with the patch: only the two known pandapower failures
  - every claimed quick check is run against the patched tree (VERIF_REPO) -> which ones raise VIOLATION
writes /tmp/confirm/<PID>_<k>.json and removes the worktree."""
import json
import os
import shutil
import subprocess
import sys

PID, K = sys.argv[1], sys.argv[2]
NO_TESTS = "--no-tests" in sys.argv
ROUND = "3" if "--round3" in sys.argv else ("2" if "--round2" in sys.argv else "1")
OUT = {"1": "/tmp/seed/%s.out", "2": "/tmp/seed2/%s.out", "3": "/tmp/seed3/%s.out"}[ROUND] % PID
patch = os.path.join(OUT, "patch_%s.diff" % K)
demo = os.path.join(OUT, "demo_%s.py" % K)
wt = "/tmp/confirm/r%s_%s_%s" % (ROUND, PID, K)
home = wt + ".home"
res = dict(pid=PID, k=K, round=ROUND)


def sh(cmd, **kw):
    return subprocess.run(cmd, shell=True, capture_output=True, text=True, **kw)


os.makedirs("/tmp/confirm", exist_ok=True)
sh("git -C /repo worktree remove --force %s" % wt)
shutil.rmtree(wt, ignore_errors=True)
shutil.rmtree(home, ignore_errors=True)
r = sh("git -C /repo worktree add --detach %s HEAD" % wt)
shutil.copytree(os.path.expanduser("~/.andes"), os.path.join(home, ".andes"))
env = dict(os.environ, HOME=home, PYTHONPATH=wt, PYTHONDONTWRITEBYTECODE="1")
try:
    d0 = subprocess.run(["/venv/bin/python", "-W", "ignore", demo], cwd=wt, env=env, capture_output=True, text=True, timeout=1800)
    res["demo_clean_exit"] = d0.returncode
    a = sh("git -C %s apply --whitespace=nowarn %s" % (wt, patch))
    if a.returncode != 0:
        a = sh("git -C %s apply -3 --whitespace=nowarn %s" % (wt, patch))
    if a.returncode != 0:
        a = sh("cd %s && patch -p1 < %s" % (wt, patch))
    res["patch_applies"] = a.returncode == 0
    res["patch_err"] = (a.stderr or a.stdout)[-300:]
    if res["patch_applies"]:
        d1 = subprocess.run(["/venv/bin/python", "-W", "ignore", demo], cwd=wt, env=env, capture_output=True, text=True, timeout=1800)
        res["demo_patched_exit"] = d1.returncode
        res["demo_patched_tail"] = (d1.stdout + d1.stderr)[-400:]
        # checks
        man = json.load(open("/verif/MANIFEST.json"))
        caught = {}
        cenv = dict(os.environ, VERIF_REPO=wt, VERIF_CACHE=wt + ".cache", VERIF_EVIDENCE_DIR=wt + ".evidence", VERIF_JOBS="8")
        for c in man["checks"]:
            pid = c["property_id"]
            pr = subprocess.run(["/verif/vcheck", pid, "--tier", "quick"], env=cenv, capture_output=True, text=True, timeout=1800)
            rules = [l.strip() for l in pr.stdout.splitlines() if l.strip().startswith("rule=")]
            caught[pid] = dict(exit=pr.returncode, rules=rules[:4])
        res["checks"] = caught
        res["caught_by"] = sorted(p for p, v in caught.items() if v["exit"] == 1)
        res["analysis_errors"] = sorted(p for p, v in caught.items() if v["exit"] == 2)
        if not NO_TESTS:
            t = subprocess.run("/venv/bin/python -m pytest -q -p no:cacheprovider --timeout=900 tests 2>&1 | tail -8", shell=True, cwd=wt, env=env,
                               capture_output=True, text=True, timeout=3600)
            res["tests_tail"] = t.stdout[-600:]
            failed = [l for l in t.stdout.splitlines() if l.startswith("FAILED")]
            res["tests_failed"] = failed
            res["tests_ok"] = all("test_pandapower" in l for l in failed) and ("passed" in t.stdout)
finally:
    sh("git -C /repo worktree remove --force %s" % wt)
    for d in (wt, home, wt + ".cache", wt + ".evidence"):
        shutil.rmtree(d, ignore_errors=True)
json.dump(res, open("/tmp/confirm/r%s_%s_%s.json" % (ROUND, PID, K), "w"), indent=1)
print(json.dumps({k: v for k, v in res.items() if k not in ("checks", "tests_tail", "demo_patched_tail")}, indent=1))
