"""Behaviour-preserving whole-tree transformations used to probe the checkers for false alarms.

usage: benign_transform.py <mode> <dest>      mode: unparse | rename | inline | introduce
  inline    : every alias local (`dae = system.dae`, see engine/alpha.py) is inlined at its uses
  introduce : in every method, reads of `self.system` / `self.config` / `self.system.dae` go through a new local alias
  flip      : every single-operator comparison `a < b` / `a <= b` is written `b > a` / `b >= a` (and vice versa)
  unparse : every andes/**/*.py is replaced by ast.unparse(ast.parse(text)) (comments and layout gone, line numbers shift)
  rename  : additionally every function-local variable (assigned in the function, not a parameter, not global/nonlocal, not
            captured by a nested function or lambda, not used via locals()/eval) gets the suffix `_r`
The transformed copy of /repo is written to <dest> (git files only); nothing in /repo is touched."""
import ast
import os
import subprocess
import sys

mode, dest = sys.argv[1], sys.argv[2]
subprocess.check_call("rm -rf %s && mkdir -p %s && git -C /repo archive HEAD | tar -x -C %s" % (dest, dest, dest), shell=True)


class Renamer(ast.NodeTransformer):
    def __init__(self, names):
        self.names = names

    def visit_Name(self, n):
        if n.id in self.names:
            n.id = n.id + "_r"
        return n

    def visit_FunctionDef(self, n):      # do not descend into nested scopes
        return n
    visit_AsyncFunctionDef = visit_Lambda = visit_ClassDef = visit_FunctionDef


def local_names(fn):
    params = {a.arg for a in fn.args.args + fn.args.kwonlyargs + fn.args.posonlyargs}
    if fn.args.vararg:
        params.add(fn.args.vararg.arg)
    if fn.args.kwarg:
        params.add(fn.args.kwarg.arg)
    assigned, banned = set(), set(params)
    nested_used = set()

    def walk(node, top):
        for ch in ast.iter_child_nodes(node):
            if isinstance(ch, (ast.FunctionDef, ast.AsyncFunctionDef, ast.Lambda, ast.ClassDef)):
                for x in ast.walk(ch):
                    if isinstance(x, ast.Name):
                        nested_used.add(x.id)
                if isinstance(ch, (ast.FunctionDef, ast.AsyncFunctionDef, ast.ClassDef)):
                    banned.add(ch.name)
                continue
            if isinstance(ch, (ast.Global, ast.Nonlocal)):
                banned.update(ch.names)
            if isinstance(ch, ast.Name) and isinstance(ch.ctx, (ast.Store, ast.Del)):
                assigned.add(ch.id)
            if isinstance(ch, (ast.Import, ast.ImportFrom)):
                for a in ch.names:
                    banned.add((a.asname or a.name).split(".")[0])
            if isinstance(ch, ast.ExceptHandler) and ch.name:
                banned.add(ch.name)
            if isinstance(ch, ast.Call) and isinstance(ch.func, ast.Name) and ch.func.id in ("locals", "eval", "exec", "vars"):
                banned.add("*")
            if isinstance(ch, (ast.ListComp, ast.SetComp, ast.DictComp, ast.GeneratorExp)):
                # comprehension variables are their own scope; names they read from the function are fine to rename,
                # their own targets must stay consistent: treat targets as banned to keep it simple
                for g in ch.generators:
                    for x in ast.walk(g.target):
                        if isinstance(x, ast.Name):
                            banned.add(x.id)
            walk(ch, False)
    walk(fn, True)
    if "*" in banned:
        return set()
    return {n for n in assigned if n not in banned and n not in nested_used and not n.startswith("__")}


sys.path.insert(0, os.path.dirname(os.path.dirname(os.path.abspath(__file__))))
from engine import alpha     # noqa: E402


def do_inline(fn):
    locs, aliases = alpha.analyse(fn)
    if not aliases:
        return 0
    sub = alpha._Subst(aliases)
    fn.body = [sub.visit(st) for st in fn.body]
    return len(aliases)


class Intro(ast.NodeTransformer):
    def __init__(self, chain, name):
        self.chain, self.name = chain, name
        self.n = 0

    def visit_Attribute(self, n):
        if isinstance(n.ctx, ast.Load) and alpha.chain_text(n) == self.chain:
            self.n += 1
            return ast.copy_location(ast.Name(id=self.name, ctx=ast.Load()), n)
        self.generic_visit(n)
        return n

    def visit_FunctionDef(self, n):
        return n
    visit_AsyncFunctionDef = visit_Lambda = visit_ClassDef = visit_FunctionDef


def do_introduce(fn):
    if not fn.args.args or fn.args.args[0].arg != "self" or fn.name.startswith("__"):
        return 0
    used = {x.id for x in ast.walk(fn) if isinstance(x, ast.Name)} | {a.arg for a in fn.args.args}
    count = 0
    for chain, nm in (("self.system.dae", "the_dae"), ("self.system", "the_system"), ("self.config", "the_config")):
        if nm in used:
            continue
        # not if the function stores to the chain or a prefix of it
        stored = [alpha.chain_text(x) for x in ast.walk(fn) if isinstance(x, ast.Attribute) and isinstance(x.ctx, (ast.Store, ast.Del))]
        if any(s_ and (chain == s_ or chain.startswith(s_ + ".")) for s_ in stored):
            continue
        it = Intro(chain, nm)
        body = [it.visit(st) for st in fn.body]
        if it.n:
            k = 1 if (body and isinstance(body[0], ast.Expr) and isinstance(body[0].value, ast.Constant) and isinstance(body[0].value.value, str)) else 0
            body.insert(k, ast.Assign(targets=[ast.Name(id=nm, ctx=ast.Store())], value=alpha.chain_ast(chain), lineno=fn.lineno))
            fn.body = body
            count += 1
    return count


class Flip(ast.NodeTransformer):
    def __init__(self):
        self.n = 0

    def visit_Compare(self, n):
        self.generic_visit(n)
        swap = {ast.Lt: ast.Gt, ast.LtE: ast.GtE, ast.Gt: ast.Lt, ast.GtE: ast.LtE}
        if len(n.ops) == 1 and type(n.ops[0]) in swap:
            self.n += 1
            return ast.copy_location(ast.Compare(left=n.comparators[0], ops=[swap[type(n.ops[0])]()], comparators=[n.left]), n)
        return n


n_files = n_ren = 0
for dp, dn, fns in os.walk(os.path.join(dest, "andes")):
    for f in fns:
        if not f.endswith(".py"):
            continue
        p = os.path.join(dp, f)
        text = open(p, encoding="utf-8").read()
        tree = ast.parse(text)
        if mode in ("inline", "introduce"):
            for node in ast.walk(tree):
                if isinstance(node, (ast.FunctionDef, ast.AsyncFunctionDef)):
                    n_ren += do_inline(node) if mode == "inline" else do_introduce(node)
            ast.fix_missing_locations(tree)
        if mode == "flip":
            fl = Flip()
            tree = fl.visit(tree)
            n_ren += fl.n
            ast.fix_missing_locations(tree)
        if mode == "rename":
            for node in ast.walk(tree):
                if isinstance(node, (ast.FunctionDef, ast.AsyncFunctionDef)):
                    names = local_names(node)
                    if names:
                        r = Renamer(names)
                        node.body = [r.visit(st) for st in node.body]
                        n_ren += len(names)
        open(p, "w", encoding="utf-8").write(ast.unparse(tree) + "\n")
        n_files += 1
print("transformed %d files, %d local names renamed -> %s" % (n_files, n_ren, dest))
