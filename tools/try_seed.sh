#!/bin/sh
# usage: try_seed.sh <PID> <k> <check-pid>...   (applies /tmp/seed/<PID>.out/patch_<k>.diff in worktree /tmp/seed/<PID>, runs quick checks, resets)
P=$1; K=$2; shift 2
W=/tmp/seed/$P
[ -d $W ] || git -C /repo worktree add --detach $W HEAD >/dev/null 2>&1
git -C $W checkout -q -- . ; git -C $W checkout -q --detach $(git -C /repo rev-parse HEAD) 2>/dev/null
git -C $W apply --whitespace=nowarn /tmp/seed/$P.out/patch_$K.diff || { echo "PATCH DOES NOT APPLY"; exit 3; }
for c in "$@"; do
  VERIF_REPO=$W VERIF_CACHE=/tmp/seed/$P.cache VERIF_EVIDENCE_DIR=/tmp/seed/$P.evid VERIF_JOBS=16 /verif/vcheck $c --tier quick | grep -E "^(VIOLATION|OK|ANALYSIS|KNOWN|  *rule=|.*construct=)" | head -12
done
git -C $W checkout -q -- .
rm -rf /tmp/seed/$P.cache /tmp/seed/$P.evid
