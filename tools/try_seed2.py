"""usage: try_seed2.py <PID> [check-pid ...]   -- applies each /tmp/seed2/<PID>.out/patch_k.diff on the CURRENT /repo HEAD in the
worktree /tmp/seed2/<PID>, runs the named quick checks (default: the property's own), prints the verdict lines, resets."""
import glob
import os
import subprocess
import sys

pid = sys.argv[1]
checks = sys.argv[2:] or [pid]
wt = "/tmp/seed2/%s" % pid
out = wt + ".out"


def sh(c):
    return subprocess.run(c, shell=True, capture_output=True, text=True)


head = sh("git -C /repo rev-parse HEAD").stdout.strip()
sh("git -C %s checkout -q -- . ; git -C %s clean -fdq; git -C %s checkout -q --detach %s" % (wt, wt, wt, head))
for patch in sorted(glob.glob(out + "/patch_*.diff")):
    if ".orig" in patch:
        continue
    k = os.path.basename(patch)[6:-5]
    sh("git -C %s reset -q --hard" % wt)
    a = sh("git -C %s apply --whitespace=nowarn %s" % (wt, patch))
    if a.returncode != 0:
        a = sh("git -C %s apply -3 --whitespace=nowarn %s" % (wt, patch))
    if a.returncode != 0:
        sh("git -C %s reset -q --hard" % wt)
        print("== %s %s: PATCH DOES NOT APPLY: %s" % (pid, k, a.stderr.strip()[:200]))
        continue
    files = sh("git -C %s diff --stat | head -3" % wt).stdout.strip().replace("\n", " | ")
    print("== %s %s  (%s)" % (pid, k, files))
    env = dict(os.environ, VERIF_REPO=wt, VERIF_CACHE=wt + ".cache", VERIF_EVIDENCE_DIR=wt + ".evid", VERIF_JOBS="12")
    for c in checks:
        r = subprocess.run(["/verif/vcheck", c], env=env, capture_output=True, text=True)
        lines = [l for l in r.stdout.splitlines() if l.startswith(("VIOLATION", "OK ", "ANALYSIS")) or l.strip().startswith("rule=")]
        print("   [%s exit %d] " % (c, r.returncode) + " ## ".join(x.strip()[:150] for x in lines[:4]))
    sh("git -C %s checkout -q -- . ; git -C %s reset -q --hard" % (wt, wt))
sh("rm -rf %s.cache %s.evid" % (wt, wt))
