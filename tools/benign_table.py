"""Rewrite the benign-refactoring table of DESIGN.md section 10 from /verif/benign/*/{patch.diff,meta.txt} and the verdict logs of the last
cross-property runs (tools/try_benign.py).  FIRST holds what the machinery said on first contact (from the session notes)."""
import glob
import os
import re
import sys

# first contact: <set>-<k> -> alarming rule(s); sets not listed were silent
FIRST = {
    "C01-3": "C11.coeff/calc_pu_coeff/bases (helper returning a tuple)",
    "C02-3": "C02.consumer/Model.refresh_inputs_arg", "C03-1": "C03.index/SymProcessor.generate_jacobians",
    "C03-2": "C03.pattern/System.store_sparse_pattern (3)", "C03-3": "C12.neutralise/System.j_islands (alias + later store)",
    "C06-1": "C15.replay/TDS.calc_h/step (new local after a write to self.*)",
    "C11-2": "C11.invariant/Model.alter (2)", "C11-3": "C11.export/ModelData.as_dict (2)", "C11-4": "C11.invariant/GroupBase.alter",
    "C12-2": "C12.neutralise/System.j_islands (alias in a nested block)", "C13-4": "C13.mpc-inverse (exit 2: tuple alias assignment)",
    "C16-2": "C16.ccs/spmatrix_to_csc", "C16-4": "C16.facade/linsolve-switch; C04.restore, C04.accept",
    "C17-4": "C17.aggregate/main.run/single", "C19-1": "C19.registry/GroupBase.get_next_idx (2)", "C19-4": "C19.find-or-add (2)",
    "C06-2": "C06.once (inliner bug: nested partial returns)",
}
# first generation of the ten sets produced before normal form II (per-set counts from the session notes): 16 of 36 alarmed
FIRST_GEN1 = "C01 C04 C05 C06 C08 C10 C12 C15 C17 C20"

logs = [l for f in sys.argv[1:] for l in open(f).read().splitlines() if l.startswith("== ")]
final = {}
for l in logs:
    m = re.match(r"== (C\d\d) (\d) \((.*?)\): (.*)", l)
    if m:
        final["%s-%s" % (m.group(1), m.group(2))] = m.group(4)
rows = []
n = alarms_first = alarms_now = 0
for d in sorted(glob.glob("/verif/benign/C*-*")):
    sid = os.path.basename(d)
    patch = open(os.path.join(d, "patch.diff")).read()
    files = sorted(set(re.findall(r"^\+\+\+ b/(\S+)", patch, re.M)))
    meta = open(os.path.join(d, "meta.txt")).read() if os.path.exists(os.path.join(d, "meta.txt")) else ""
    line = next((x.strip() for x in meta.splitlines() if len(x.strip()) > 25 and not x.strip().startswith(("#", "=", "-"))), "")
    line = re.sub(r"\s+", " ", line)[:140].replace("|", "/")
    fin = final.get(sid, "(not re-run)")
    n += 1
    alarms_first += sid in FIRST
    alarms_now += fin.startswith("FALSE ALARM")
    rows.append("| %s | %s | %s | %s | %s |" % (sid, ", ".join(f.replace("andes/", "") for f in files), line, FIRST.get(sid, "silent"),
                                             "silent" if fin == "silent" else fin[:120]))
head = "| refactoring | file(s) | what it does (agent's words) | first contact (second generation of rules) | final, all 19 checks |\n|---|---|---|---|---|\n"
summary = ("\n**Totals.** %d behaviour-preserving refactorings (19 properties x 4). The first ten sets (%s) were produced while the rules were still "
           "pattern rules: 16 of those 36 raised an alarm on first contact (per-patch records of that round were not kept; it is what motivated "
           "normal form II and the evaluated rules). The table's `first contact` column is the state after that rework: %d of %d still alarmed, "
           "each traced to a frozen idiom or a gap of the normal form and removed in general (section 9). Final: %d alarms.\n"
           % (n, FIRST_GEN1, alarms_first, n, alarms_now))
table = head + "\n".join(rows) + "\n" + summary
p = "/verif/DESIGN.md"
s = open(p).read()
if "<!-- BENIGNTABLE:BEGIN -->" in s:
    s = re.sub(r"<!-- BENIGNTABLE:BEGIN -->.*?<!-- BENIGNTABLE:END -->", lambda m_: "<!-- BENIGNTABLE:BEGIN -->\n" + table + "<!-- BENIGNTABLE:END -->", s, flags=re.S)
else:
    s = s.replace("BENIGNTABLE", "<!-- BENIGNTABLE:BEGIN -->\n" + table + "<!-- BENIGNTABLE:END -->", 1)
open(p, "w").write(s)
print(n, alarms_first, alarms_now)
