"""Rewrite the seed table of DESIGN.md section 10 from /verif/seeded/*/{meta.json,checks.json}."""
import glob
import json
import os
import re

rows = []
stats = dict(total=0, first_caught=0, first_missed=0, now_caught=0, now_own=0)
for d in sorted(glob.glob("/verif/seeded/*")):
    m = os.path.join(d, "meta.json")
    if not os.path.exists(m):
        continue
    meta = json.load(open(m))
    ck = json.load(open(os.path.join(d, "checks.json"))) if os.path.exists(os.path.join(d, "checks.json")) else {}
    patch = open(os.path.join(d, "patch.diff")).read()
    files = sorted(set(re.findall(r"^\+\+\+ b/(\S+)", patch, re.M)))
    desc = meta.get("description", "")
    # first informative line of the agent's meta text
    line = next((l.strip() for l in desc.splitlines() if len(l.strip()) > 25 and not l.strip().startswith(("#", "=", "-"))), "")
    line = re.sub(r"\s+", " ", line)[:150]
    caught = ck.get("caught_by")
    rules = []
    for p in caught or []:
        rules += [r for r in ck["checks"][p]["rules"][:1]]
    stats["total"] += 1
    stats["first_" + meta.get("first_contact", "caught")] += 1
    if caught:
        stats["now_caught"] += 1
        if meta["property"] in caught:
            stats["now_own"] += 1
    rows.append("| %s | %s | %s | %s | %s | %s |" % (
        meta["id"], ", ".join(f.replace("andes/", "") for f in files), line.replace("|", "/"), meta.get("first_contact", "?"),
        ", ".join(caught) if caught else ("—" if caught is not None else "(not run)"), "; ".join(rules)[:110].replace("|", "/")))
head = ("| seed | file(s) | what it does (agent's words) | first contact | caught by (final) | reporting rule |\n|---|---|---|---|---|---|\n")
summary = ("\n**Totals.** %(total)d kept seeds; on first contact (before any rule was strengthened in response) %(first_caught)d were reported and "
           "%(first_missed)d were missed; with the machinery as committed %(now_caught)d of %(total)d are reported (%(now_own)d by the check of the "
           "property they were written against, the others by the check of a neighbouring property that owns the mechanism).\n" % stats)
table = head + "\n".join(rows) + "\n" + summary
p = "/verif/DESIGN.md"
s = open(p).read()
if "<!-- SEEDTABLE:BEGIN -->" in s:
    s = re.sub(r"<!-- SEEDTABLE:BEGIN -->.*?<!-- SEEDTABLE:END -->", "<!-- SEEDTABLE:BEGIN -->\n" + table + "<!-- SEEDTABLE:END -->", s, flags=re.S)
else:
    s = s.replace("SEEDTABLE", "<!-- SEEDTABLE:BEGIN -->\n" + table + "<!-- SEEDTABLE:END -->", 1)
open(p, "w").write(s)
print(stats)
