"""Re-base the kept agent patches (benign/*/patch.diff, seeded/*/patch.diff) onto the current /repo HEAD after a `fix:` commit changed their
context: `git apply --check`; if that fails, a 3-way `git apply -3` in a throw-away worktree; a clean merge replaces patch.diff (the
previous text is kept once as patch.orig.diff).  Unresolved ones are listed for hand re-basing."""
import glob
import os
import shutil
import subprocess


def sh(c):
    return subprocess.run(c, shell=True, capture_output=True, text=True)


wt = "/tmp/rebase_wt"
sh("git -C /repo worktree remove --force %s" % wt)
shutil.rmtree(wt, ignore_errors=True)
sh("git -C /repo worktree add --detach %s HEAD" % wt)
bad = []
n_ok = n_re = 0
for p in sorted(glob.glob("/verif/benign/*/patch.diff") + glob.glob("/verif/seeded/*/patch.diff")):
    sh("git -C %s reset -q --hard; git -C %s clean -fdq" % (wt, wt))
    if sh("git -C %s apply --check --whitespace=nowarn %s" % (wt, p)).returncode == 0:
        n_ok += 1
        continue
    r = sh("git -C %s apply -3 --whitespace=nowarn %s" % (wt, p))
    conflict = sh("git -C %s diff --name-only --diff-filter=U" % wt).stdout.strip() or "<<<<<<<" in sh("git -C %s diff" % wt).stdout
    if r.returncode != 0 or conflict:
        bad.append(p)
        continue
    sh("git -C %s reset -q" % wt)
    new = sh("git -C %s diff" % wt).stdout
    if not new.strip():
        bad.append(p)
        continue
    orig = p.replace("patch.diff", "patch.orig.diff")
    if not os.path.exists(orig):
        shutil.copy(p, orig)
    open(p, "w").write(new)
    n_re += 1
    print("re-based", p)
sh("git -C /repo worktree remove --force %s" % wt)
print("apply as they are: %d, re-based: %d, unresolved: %d" % (n_ok, n_re, len(bad)))
for b in bad:
    print("UNRESOLVED", b)
