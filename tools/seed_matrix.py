"""Final catching matrix: every kept seed (/verif/seeded/<id>/patch.diff) is applied to a fresh worktree of the current /repo HEAD and
every claimed quick check is run against it (VERIF_REPO).  Writes /verif/seeded/<id>/checks.json and prints one line per seed.

usage: seed_matrix.py [-j N] [id ...]"""
import json
import os
import shutil
import subprocess
import sys
from concurrent.futures import ThreadPoolExecutor

SEEDED = "/verif/seeded"


def sh(c, **kw):
    return subprocess.run(c, shell=True, capture_output=True, text=True, **kw)


def one(sid):
    d = os.path.join(SEEDED, sid)
    wt = "/tmp/matrix/%s" % sid
    sh("git -C /repo worktree remove --force %s" % wt)
    shutil.rmtree(wt, ignore_errors=True)
    os.makedirs("/tmp/matrix", exist_ok=True)
    sh("git -C /repo worktree add --detach %s HEAD" % wt)
    res = dict(id=sid)
    try:
        a = sh("git -C %s apply --whitespace=nowarn %s/patch.diff" % (wt, d))
        if a.returncode != 0:
            a = sh("git -C %s apply -3 --whitespace=nowarn %s/patch.diff" % (wt, d))
        res["applies"] = a.returncode == 0
        if not res["applies"]:
            res["error"] = a.stderr[-200:]
            return res
        man = json.load(open("/verif/MANIFEST.json"))
        env = dict(os.environ, VERIF_REPO=wt, VERIF_CACHE=wt + ".cache", VERIF_EVIDENCE_DIR=wt + ".evid", VERIF_JOBS="4")
        out = {}
        for c in man["checks"]:
            pid = c["property_id"]
            r = subprocess.run(["/verif/vcheck", pid, "--tier", "quick"], env=env, capture_output=True, text=True)
            rules = []
            for ln in r.stdout.splitlines():
                ln = ln.strip()
                if ln.startswith("rule="):
                    rules.append(ln.split(" at ")[0].replace("rule=", "").replace(" construct=", "/"))
            out[pid] = dict(exit=r.returncode, rules=rules[:5])
        res["checks"] = out
        res["caught_by"] = sorted(p for p, v in out.items() if v["exit"] == 1)
        res["analysis_errors"] = sorted(p for p, v in out.items() if v["exit"] == 2)
        res["head"] = sh("git -C /repo rev-parse --short HEAD").stdout.strip()
    finally:
        sh("git -C /repo worktree remove --force %s" % wt)
        for x in (wt, wt + ".cache", wt + ".evid"):
            shutil.rmtree(x, ignore_errors=True)
    json.dump(res, open(os.path.join(d, "checks.json"), "w"), indent=1)
    return res


if __name__ == "__main__":
    args = sys.argv[1:]
    jobs = 6
    if args and args[0] == "-j":
        jobs = int(args[1])
        args = args[2:]
    ids = args or sorted(x for x in os.listdir(SEEDED) if os.path.isfile(os.path.join(SEEDED, x, "patch.diff")))
    with ThreadPoolExecutor(jobs) as ex:
        for r in ex.map(one, ids):
            own = r["id"].split("-")[1]
            print("%-12s applies=%s caught_by=%s%s" % (r["id"], r.get("applies"), r.get("caught_by"),
                                                     "" if own in (r.get("caught_by") or []) else "   <-- not by its own property's check"),
                  ("AE=%s" % r["analysis_errors"]) if r.get("analysis_errors") else "")
