#!/bin/sh
# run every claimed thorough check against /repo (N at a time); prints one verdict line per property
cd /verif
for p in C01 C02 C03 C04 C05 C06 C08 C09 C10 C11 C12 C13 C14 C15 C16 C17 C18 C19 C20; do echo $p; done | \
  xargs -P ${1:-3} -I{} sh -c './vcheck {} --tier thorough > /tmp/allt_{}.out 2>&1; echo "{} exit=$? $(grep -E "^(OK|VIOLATION|ANALYSIS)" /tmp/allt_{}.out | head -2 | tr "\n" " ")"'
