"""usage: try_seed3.py <PID> [check ...]  -- applies each /tmp/seed3/<PID>.out/patch_k.diff on the CURRENT /repo HEAD in a throw-away worktree,
runs the named quick checks (default: the property's own), prints the verdict lines."""
import glob
import os
import subprocess
import sys

pid = sys.argv[1]
checks = sys.argv[2:] or [pid]
wt = "/tmp/seed3_wt/%s" % pid
out = "/tmp/seed3/%s.out" % pid


def sh(c):
    return subprocess.run(c, shell=True, capture_output=True, text=True)


sh("git -C /repo worktree remove --force %s; git -C /repo worktree prune" % wt)
sh("git -C /repo worktree add --detach %s HEAD" % wt)
for patch in sorted(glob.glob(out + "/patch_*.diff")):
    if ".orig" in patch:
        continue
    k = os.path.basename(patch)[6:-5]
    sh("git -C %s reset -q --hard" % wt)
    a = sh("git -C %s apply --whitespace=nowarn %s" % (wt, patch))
    if a.returncode != 0:
        print("== %s %s: patch does not apply: %s" % (pid, k, a.stderr.strip()[:120]))
        continue
    stat = sh("git -C %s diff --stat | tail -1" % wt).stdout.strip()
    print("== %s %s (%s)" % (pid, k, stat))
    env = dict(os.environ, VERIF_REPO=wt, VERIF_CACHE=wt + ".cache", VERIF_EVIDENCE_DIR=wt + ".evid", VERIF_JOBS="8")
    for c in checks:
        r = subprocess.run(["/verif/vcheck", c], env=env, capture_output=True, text=True)
        lines = [l.strip() for l in r.stdout.splitlines() if l.strip().startswith(("rule=", "ANALYSIS", "UNDECIDED"))]
        print("   [%s exit %d] %s" % (c, r.returncode, " ## ".join(x[:150] for x in lines[:3])))
sh("git -C /repo worktree remove --force %s" % wt)
sh("rm -rf %s %s.cache %s.evid" % (wt, wt, wt))
