import warnings; warnings.filterwarnings('ignore')
import numpy as np, andes, inspect
andes.config_logger(30)
ss = andes.load(andes.get_case('ieee14/ieee14_esst1a.xlsx'), default_config=True, no_output=True)
m = ss.ESST1A
print('ESST1A n =', m.n)
print('declared v_iter:', {n: v.v_iter for n, v in m.cache.all_vars.items() if v.v_iter})
import pycode
print('functions in pycode/ESST1A.py:', [n for n in dir(pycode.ESST1A) if n.endswith('_ii')])
print('loaded calls.ii keys:', list(m.calls.ii.keys()), ' ii_args keys:', list(m.calls.ii_args.keys()))
ss.PFlow.run()
ss.TDS.init()
print('TDS init ok:', ss.TDS.initialized, 'exit', ss.exit_code)
# residual of the declared iterative equations at the initialised point
inp = m.get_inputs(refresh=True)
for name in ('vref', 'vi', 'vas'):
    f = getattr(pycode.ESST1A, name + '_ii')
    args = m.calls.ii_args[name]
    r = f(*[inp[a] for a in args])
    print(name, 'value', m.__dict__[name].v, ' 0 = v_iter residual:', np.ravel(r))
