"""Regenerate MANIFEST.json from the table below (kept in one place so it stays valid)."""
import json
import os

HERE = os.path.dirname(os.path.abspath(__file__))

CLAIMED = {
    "C02": dict(cat="translation_validation",
                text="Translation validation of the code generator over all shipped models: every generated f/g/service/"
                     "initialiser function is parsed as text and proved equal (sympy normal forms) to an independent parse "
                     "of the declared equation string of the variable it is positionally bound to; signatures are compared "
                     "with the stored argument tables; consumer/loader/hash/staleness rules on the ASTs of model.py, "
                     "system.py, symprocessor.py. Identity is over R/C for all argument values at once.",
                note="Trusted: sympy as normal-form kernel, numpy function contracts, Python's ast; elaboration runs only "
                     "declarative model constructors; the generator is run as a build step and only its output text is read.",
                tech="translation validation (two AST front-ends, CAS normal forms) + AST/CFG rules", ref="3/C02"),
    "C03": dict(cat="translation_validation",
                text="Every generated Jacobian entry is proved equal to the derivative (own differentiation of own parse) of "
                     "the equation/variable pair its index tables address; completeness (no structurally non-zero derivative "
                     "without entry), constant lists == diag_eps diagonals; set-inclusion argument pattern >= updates on the "
                     "ASTs of System.store_sparse_pattern/j_update, Model.j_update/store_sparse_pattern, DAE.",
                note="Trusted: sympy diff/normal forms, kvxopt spmatrix/ipadd contracts. Assembled-matrix finite differences "
                     "at operating points are declined (numerical).",
                tech="translation validation of generated Jacobians + structural AST patterns/CFG ordering", ref="3/C03"),
}

CLAIMED.update({
    "C01": dict(cat="other",
                text="Necessary structural clauses of 'reported voltages satisfy the physical power balance': every bus-injection and "
                     "set-point equation of Line, Shunt/ShuntTD/ShuntSw, PQ (both regimes), PV, Slack, Jumper is proved equal "
                     "(sympy normal form, symbolic in all parameters, ConstService chain inlined) to an independently written "
                     "textbook reference; terminals are linked to the right Bus variable; residual assembly (registration, "
                     "np.add.at accumulation, setters after adders, clear-before/collect-after); the success verdict is dominated "
                     "by `mis < config.tol` on the max-abs of the full freshly evaluated residual; Newton linear-system layout. "
                     "Convergence from a flat start and numeric residuals are declined.",
                note="Trusted: the reference formulas in refs/network_refs.py (derived from the pi-model), sympy normal forms, "
                     "kvxopt block-column convention. Decides the named clauses, not the behaviour.",
                tech="DSL normal-form equivalence vs independent reference + AST patterns/CFG dominance + exhaustive flag enumeration",
                ref="3/C01"),
    "C04": dict(cat="other",
                text="For every class registered in daeint.method_map the residual is proved (polynomial normal form) to be the "
                     "theta-rule of that method name and the iteration matrix to be its derivative; g-scaling pair; update sign "
                     "table; save-before/restore-on-every-rejected-exit pairing on the CFG; time rewind on rejection; forward "
                     "abstract interpretation of TDS.calc_h proving deltat <= tstep at h := deltat under fixt, with the tf clip "
                     "and the switch-time clip post-dominating; acceptance dominated by the bare-tolerance test.",
                note="Trusted: theta table in the checker, kvxopt block columns. Per-step residual satisfaction and convergence "
                     "order are numerical and declined.",
                tech="polynomial normal form of return ASTs + CFG must-pass/guard rules + small abstract interpreter", ref="3/C04"),
    "C08": dict(cat="other",
                text="Sign-count predicates partition R (exhaustive over the 7 order types of Re(mu) vs -tol<0<tol); symbolic "
                     "execution of EIG._reduce in a non-commutative algebra proves As = diag(1/T')(fx - fy gy^-1 gx); "
                     "typestate 'T-scaled' forbids re-scaling on the zero-time-constant path; reorder permutation idiom; axis-label "
                     "inference (state/mode) through eig/solve/.T/*/@/subscripts proves the participation-factor normalisation "
                     "and orientation consistent with the report.",
                note="Trusted: numpy.linalg.eig column convention, kvxopt linsolve in-place contract. Numerical accuracy declined.",
                tech="order-type enumeration + non-commutative symbolic execution + axis-type inference + typestate", ref="3/C08"),
})

CLAIMED.update({
    "C16": dict(cat="other",
                text="Must-pass-through on the CFG of every factorising entry point (numeric factorisation + solve of this call's "
                     "A, or the retry's own result); refresh flag after every Jacobian rebuild in both Newton loops; CCS->csc field "
                     "order; sibling agreement on singular matrices (NaN sentinel) across solve/linsolve and back-ends; a library-"
                     "contract table demands a pattern guard where the library does not validate the cached symbolic factor; "
                     "facade dispatch. Numerical agreement across back-ends and bit-identical repetition are declined.",
                note="Trusted: kvxopt/scipy contracts (table in rules/c16.py, confirmed by findings/demo_solver_*.py).",
                tech="must-pass-through on statement CFG + sibling cross-check + structural AST patterns", ref="3/C16"),
    "C17": dict(cat="other",
                text="Error discipline: every unsuccessful return of PFlow.run, TDS.run, TDS.test_init, EIG.run, System.setup passes "
                     "an exit_code increment (value-sensitive on the `ret` flag); success flags are guarded by the routine's own "
                     "test; TDS.init/itm_step call sites in other routines are dominated by a PFlow.converged gate with early "
                     "return; CLI aggregation; NaN exits precede state updates; solver sentinel propagation.",
                note="That every ill-posed input reaches one of these exits is a runtime fact and declined.",
                tech="error-discipline / must-pass-through / guard dominance on statement CFGs", ref="3/C17"),
})

CLAIMED.update({
    "C05": dict(cat="other",
                text="Init verdict dominated by the residual test with only the two sanctioned residual writes before it; hand-over "
                     "ordering in TDS.init / System.init / Model.init; for all 97 models the generated init_seq respects the "
                     "dependencies of every declared initialiser; sibling rule: all 16 models that take over p/q of a static device "
                     "switch it off in v_numeric; thorough tier: 739 symbolic equilibrium obligations e[v := v_str] == 0 against a "
                     "committed baseline.",
                note="That initialisation succeeds for every consistent case and that an undisturbed run stays put are declined. "
                     "Equilibrium obligations that need power-flow relations are not claimed.",
                tech="CFG ordering/dominance + IR dependency check + sibling rule + DSL substitution with sympy zero test", ref="3/C05"),
    "C06": dict(cat="other",
                text="Exact-time comparator idioms (with positive control); every advance of the event pointer is dominated by the "
                     "dispatch of that event and every dispatch followed by the advance; t0 events dispatched between schedule "
                     "construction and the first calc_h; schedule-table construction; all callbacks stored in TimerParam.callback "
                     "slots (+TimeSeries.apply_exact) execute their effect iff is_time[i] and u[i] (4 valuations) on the device "
                     "addressed by the loop index; step clipping shared with C04.",
                note="Floating-point exactness of t + (ts - t) == ts and arbitrary schedules are runtime facts: declined.",
                tech="call-pairing/typestate on CFG + sibling cross-check with guard evaluation over finite valuations", ref="3/C06"),
    "C09": dict(cat="other",
                text="The check_var/check_eq methods of Limiter, HardLimiter, DeadBand, LessThan, IsEqual, AntiWindup, RateLimiter, "
                     "DeadBandRT are interpreted (scalar abstract interpreter over their ASTs) on one representative per order type "
                     "of their inputs x all constructor options (>8000 cases): flags exhaustive/one-hot/agree with comparisons, clamp "
                     "algebra, x_set layout vs its three consumers, evaluation order, self-comparison lint, exhaustive time splits.",
                note="Comparison-only code is invariant within an order type, so the enumeration is exhaustive for all real inputs. "
                     "Limit adjustment at initialisation (do_adjust_*) is skipped.",
                tech="order-type abstract interpretation of method ASTs (finite, exhaustive)", ref="3/C09"),
    "C18": dict(cat="other",
                text="Every block class is elaborated in a synthetic host model through the real export path; the exported equations "
                     "are Laplace-transformed and solved over Q(s, params); Y/U is proved equal to the documented transfer function "
                     "(24 blocks, 3 bypass cases); constant-input balance of the declared initial values (56 equations); limited "
                     "variants == unlimited siblings inside the limits; every stored constructor parameter is used.",
                note="Reference table transcribed from the class docstrings (rules/c18.py). The property's own quantifier is symbolic.",
                tech="Laplace-domain elimination in Q(s, params) by CAS normal form + dataflow lint", ref="3/C18"),
})

NOT_YET = {}

NA = {
    "C07": "Convergence of simulated trajectories to a closed-form / matrix-exponential reference as h->0 is a numerical "
           "statement about executions; no clause of it is visible in the shape of the code. Its structural preconditions "
           "(integrator weights, mass matrix) are decided under C04 and C02/C03.",
}


def main():
    props = [json.loads(l) for l in open(os.path.join(HERE, "properties.jsonl"))]
    checks = []
    na = []
    for p in props:
        pid = p["id"]
        if pid in CLAIMED:
            c = CLAIMED[pid]
            checks.append({
                "property_id": pid,
                "quick_cmd": "./vcheck %s --tier quick" % pid,
                "thorough_cmd": "./vcheck %s --tier thorough" % pid,
                "evidence_file": "evidence/%s.json" % pid,
                "replay_cmd_template": "./vcheck %s --replay {path}" % pid,
                "engine": "vcheck",
                "level_claimed": {"category": c["cat"], "text": c["text"], "design_ref": "DESIGN.md " + c["ref"]},
                "level_note": c["note"],
                "technique": c["tech"],
            })
        elif pid in NA:
            na.append({"property_id": pid, "reason": NA[pid]})
        else:
            na.append({"property_id": pid, "reason": NOT_YET.get(
                pid, "checker not built yet in this round (planned, see DESIGN.md section 3); not claimed until it exists")})
    man = {
        "version": 1,
        "setup_cmd": "/venv/bin/python -c \"import sympy, networkx, jsonschema, andes\" && /venv/bin/python -m compileall -q engine rules >/dev/null; true",
        "hooks": {
            "guard": "ANDES_VERIF",
            "enable": "no source hooks are needed: every check is static (reads /repo's working tree; elaborates declarative "
                      "model constructors; runs the code generator as a build step into a scratch dir)",
            "baseline_off_cmd": "cd /repo && /venv/bin/python -m pytest -ra -q -p no:cacheprovider --timeout=900 --continue-on-collection-errors",
            "source_commits": [],
            "add_only": True,
        },
        "engines": [
            {"name": "vcheck", "path": "vcheck", "serves_properties": sorted(CLAIMED),
             "kind_free_text": "static analysis: stdlib ast + hand-built statement CFG (networkx) + structural AST patterns; "
                               "DSL front-ends + sympy normal forms for the embedded equation language and generated code"},
        ],
        "checks": checks,
        "not_applicable": na,
        "notes": "Exit protocol: 0 held / 1 VIOLATION line / 2 ANALYSIS-ERROR (anchor vanished, never a silent pass). "
                 "Known findings: known_findings.json.",
    }
    with open(os.path.join(HERE, "MANIFEST.json"), "w") as f:
        json.dump(man, f, indent=1)
        f.write("\n")


if __name__ == "__main__":
    main()
