"""Regenerate MANIFEST.json from the table below (kept in one place so it stays valid)."""
import json
import os

HERE = os.path.dirname(os.path.abspath(__file__))

CLAIMED = {
    "C02": dict(cat="translation_validation",
                text="Translation validation of the code generator over all shipped models: every generated f/g/service/"
                     "initialiser function is parsed as text and proved equal (sympy normal forms) to an independent parse "
                     "of the declared equation string of the variable it is positionally bound to; signatures are compared "
                     "with the stored argument tables; consumer/loader/hash/staleness rules on the ASTs of model.py, "
                     "system.py, symprocessor.py. Identity is over R/C for all argument values at once.",
                note="Trusted: sympy as normal-form kernel, numpy function contracts, Python's ast; elaboration runs only "
                     "declarative model constructors; the generator is run as a build step and only its output text is read.",
                tech="translation validation (two AST front-ends, CAS normal forms) + AST/CFG rules", ref="3/C02"),
    "C03": dict(cat="translation_validation",
                text="Every generated Jacobian entry is proved equal to the derivative (own differentiation of own parse) of "
                     "the equation/variable pair its index tables address; completeness (no structurally non-zero derivative "
                     "without entry), constant lists == diag_eps diagonals; set-inclusion argument pattern >= updates on the "
                     "ASTs of System.store_sparse_pattern/j_update, Model.j_update/store_sparse_pattern, DAE.",
                note="Trusted: sympy diff/normal forms, kvxopt spmatrix/ipadd contracts. Assembled-matrix finite differences "
                     "at operating points are declined (numerical).",
                tech="translation validation of generated Jacobians + structural AST patterns/CFG ordering", ref="3/C03"),
}

CLAIMED.update({
    "C01": dict(cat="other",
                text="Necessary structural clauses of 'reported voltages satisfy the physical power balance': every bus-injection and "
                     "set-point equation of Line, Shunt/ShuntTD/ShuntSw, PQ (both regimes), PV, Slack, Jumper is proved equal "
                     "(sympy normal form, symbolic in all parameters, ConstService chain inlined) to an independently written "
                     "textbook reference; terminals are linked to the right Bus variable; residual assembly (registration, "
                     "np.add.at accumulation, setters after adders, clear-before/collect-after); the success verdict is dominated "
                     "by `mis < config.tol` on the max-abs of the full freshly evaluated residual; Newton linear-system layout. "
                     "Convergence from a flat start and numeric residuals are declined.",
                note="Trusted: the reference formulas in refs/network_refs.py (derived from the pi-model), sympy normal forms, "
                     "kvxopt block-column convention. Decides the named clauses, not the behaviour.",
                tech="DSL normal-form equivalence vs independent reference + AST patterns/CFG dominance + exhaustive flag enumeration",
                ref="3/C01"),
    "C04": dict(cat="other",
                text="For every class registered in daeint.method_map the residual is proved (polynomial normal form) to be the "
                     "theta-rule of that method name and the iteration matrix to be its derivative; g-scaling pair; update sign "
                     "table; save-before/restore-on-every-rejected-exit pairing on the CFG; time rewind on rejection; forward "
                     "abstract interpretation of TDS.calc_h proving deltat <= tstep at h := deltat under fixt, with the tf clip "
                     "and the switch-time clip post-dominating; acceptance dominated by the bare-tolerance test.",
                note="Trusted: theta table in the checker, kvxopt block columns. Per-step residual satisfaction and convergence "
                     "order are numerical and declined.",
                tech="polynomial normal form of return ASTs + CFG must-pass/guard rules + small abstract interpreter", ref="3/C04"),
    "C08": dict(cat="other",
                text="Sign-count predicates partition R (exhaustive over the 7 order types of Re(mu) vs -tol<0<tol); symbolic "
                     "execution of EIG._reduce in a non-commutative algebra proves As = diag(1/T')(fx - fy gy^-1 gx); "
                     "typestate 'T-scaled' forbids re-scaling on the zero-time-constant path; reorder permutation idiom; axis-label "
                     "inference (state/mode) through eig/solve/.T/*/@/subscripts proves the participation-factor normalisation "
                     "and orientation consistent with the report.",
                note="Trusted: numpy.linalg.eig column convention, kvxopt linsolve in-place contract. Numerical accuracy declined.",
                tech="order-type enumeration + non-commutative symbolic execution + axis-type inference + typestate", ref="3/C08"),
})

CLAIMED.update({
    "C16": dict(cat="other",
                text="Must-pass-through on the CFG of every factorising entry point (numeric factorisation + solve of this call's "
                     "A, or the retry's own result); refresh flag after every Jacobian rebuild in both Newton loops; CCS->csc field "
                     "order; sibling agreement on singular matrices (NaN sentinel) across solve/linsolve and back-ends; a library-"
                     "contract table demands a pattern guard where the library does not validate the cached symbolic factor; "
                     "facade dispatch. Numerical agreement across back-ends and bit-identical repetition are declined.",
                note="Trusted: kvxopt/scipy contracts (table in rules/c16.py, confirmed by findings/demo_solver_*.py).",
                tech="must-pass-through on statement CFG + sibling cross-check + structural AST patterns", ref="3/C16"),
    "C17": dict(cat="other",
                text="Error discipline: every unsuccessful return of PFlow.run, TDS.run, TDS.test_init, EIG.run, System.setup passes "
                     "an exit_code increment (value-sensitive on the `ret` flag); success flags are guarded by the routine's own "
                     "test; TDS.init/itm_step call sites in other routines are dominated by a PFlow.converged gate with early "
                     "return; CLI aggregation; NaN exits precede state updates; solver sentinel propagation.",
                note="That every ill-posed input reaches one of these exits is a runtime fact and declined.",
                tech="error-discipline / must-pass-through / guard dominance on statement CFGs", ref="3/C17"),
})

CLAIMED.update({
    "C05": dict(cat="other",
                text="Init verdict dominated by the residual test with only the two sanctioned residual writes before it; hand-over "
                     "ordering in TDS.init / System.init / Model.init; for all 97 models the generated init_seq respects the "
                     "dependencies of every declared initialiser; sibling rule: all 16 models that take over p/q of a static device "
                     "switch it off in v_numeric; thorough tier: 739 symbolic equilibrium obligations e[v := v_str] == 0 against a "
                     "committed baseline.",
                note="That initialisation succeeds for every consistent case and that an undisturbed run stays put are declined. "
                     "Equilibrium obligations that need power-flow relations are not claimed.",
                tech="CFG ordering/dominance + IR dependency check + sibling rule + DSL substitution with sympy zero test", ref="3/C05"),
    "C06": dict(cat="other",
                text="Exact-time comparator idioms (with positive control); every advance of the event pointer is dominated by the "
                     "dispatch of that event and every dispatch followed by the advance; t0 events dispatched between schedule "
                     "construction and the first calc_h; schedule-table construction; all callbacks stored in TimerParam.callback "
                     "slots (+TimeSeries.apply_exact) execute their effect iff is_time[i] and u[i] (4 valuations) on the device "
                     "addressed by the loop index; step clipping shared with C04.",
                note="Floating-point exactness of t + (ts - t) == ts and arbitrary schedules are runtime facts: declined.",
                tech="call-pairing/typestate on CFG + sibling cross-check with guard evaluation over finite valuations", ref="3/C06"),
    "C09": dict(cat="other",
                text="The check_var/check_eq methods of Limiter, HardLimiter, DeadBand, LessThan, IsEqual, AntiWindup, RateLimiter, "
                     "DeadBandRT are interpreted (scalar abstract interpreter over their ASTs) on one representative per order type "
                     "of their inputs x all constructor options (>8000 cases): flags exhaustive/one-hot/agree with comparisons, clamp "
                     "algebra, x_set layout vs its three consumers, evaluation order, self-comparison lint, exhaustive time splits.",
                note="Comparison-only code is invariant within an order type, so the enumeration is exhaustive for all real inputs. "
                     "Limit adjustment at initialisation (do_adjust_*) is skipped.",
                tech="order-type abstract interpretation of method ASTs (finite, exhaustive)", ref="3/C09"),
    "C18": dict(cat="other",
                text="Every block class is elaborated in a synthetic host model through the real export path; the exported equations "
                     "are Laplace-transformed and solved over Q(s, params); Y/U is proved equal to the documented transfer function "
                     "(24 blocks, 3 bypass cases); constant-input balance of the declared initial values (56 equations); limited "
                     "variants == unlimited siblings inside the limits; every stored constructor parameter is used.",
                note="Reference table transcribed from the class docstrings (rules/c18.py). The property's own quantifier is symbolic.",
                tech="Laplace-domain elimination in Q(s, params) by CAS normal form + dataflow lint", ref="3/C18"),
})

CLAIMED.update({
    "C10": dict(cat="other",
                text="Affine identities (normal form) prove that the blocks cut by DAE.request_address tile [begin, begin+ndevice*nvar) in "
                     "the contiguous and the collated layout and that the counter is advanced to the end; alloc/advance pairing and guard "
                     "agreement in System.set_address; external variable/parameter/service links data-depend on idx2uid(indexer) or "
                     "group.get(idx=indexer); slot names pair idx.v[k] with a[k]; Model.get and Group.get use one idx->uid map.",
                note="Per-case runtime facts (device order, idx types) are declined.",
                tech="affine-identity proof by polynomial normal form + def-use patterns + CFG pairing", ref="3/C10"),
    "C11": dict(cat="other",
                text="The coefficient dict literal of calc_pu_coeff (local bases inlined) equals the textbook base ratios for all ten "
                     "quantity kinds, keys == NumParam flags, all applied; v == vin*k after to_array/set_pu_coeff/restore and on both "
                     "branches of Model.alter (symbolic state update); time-constant propagation to dae.Tf and TDS.Teye; every exporter "
                     "read of cache.df_in is dominated by a refresh; restore precedes setup on reset.",
                note="'Takes effect in the next residual evaluation' beyond these data-flow facts is declined.",
                tech="normal form on dict literal + symbolic state update + freshness (dominance) rule", ref="3/C11"),
    "C12": dict(cat="other",
                text="Cross-table exhaustiveness: every bus attachment field (indexer of a link into Bus) of every power-flow model is in "
                     "bus_deps and every listed field exists; act() switches off exactly the found devices; connectivity()'s edge table "
                     "covers every model injecting into >= 2 buses with its own status/addresses, symmetric adjacency, degree test; "
                     "neutralisation ordering and Bus layout assumption; slack-count classification partitions N; re-check after events.",
                note="Correctness of the Goderya closure loop for all topologies is declined.",
                tech="cross-table exhaustiveness against the elaborated model IR + CFG ordering + integer partition enumeration", ref="3/C12"),
    "C13": dict(cat="other",
                text="MATPOWER import and export column tables are extracted from the ASTs and proved mutual inverses (same parameter, "
                     "inverse scale) for every exported column; additive bus-total columns scattered through a device->bus index must "
                     "accumulate; xlsx/json writer freshness and reader->System.add plumbing; every psse-dyr.yaml entry agrees with the "
                     "declarations of its destination model (40 entries); format registry.",
                note="Agreement of RAW parsing with an independent reading of the file is declined (that is testing).",
                tech="writer/reader table agreement + cardinality-typed dataflow + YAML-vs-IR agreement", ref="3/C13"),
    "C14": dict(cat="other",
                text="Typestate/ordering necessary conditions: sentinel t<0, init iff t<0 else resume; the resume path rebuilds nothing and "
                     "does not move the event pointer; unpack and progress-bar cleanup after the loop; snapshot save strips C objects "
                     "before dump; load imports pycode, unpickles, repoints views; __getattr__ classes define __getstate__; reset order.",
                note="Trajectory equality up to discretisation error for every split point is numerical and declined.",
                tech="typestate / ordering rules on statement CFGs", ref="3/C14"),
    "C15": dict(cat="other",
                text="Channel order (t, x, y, z) agrees at every writer/reader site (unpack, lst, npz, plot loader, csv replay); stored "
                     "rows are fresh arrays keyed by a float copy of t; Output.xidx/yidx are produced once (sorted unique) and consumed "
                     "unchanged by storage, names and address translation; store only accepted steps, thinning, off-load write-then-reset.",
                note="Value equality between files and memory at runtime is declined.",
                tech="writer/reader table agreement + alias rule + CFG ordering", ref="3/C15"),
    "C19": dict(cat="other",
                text="idx registry pairing (allocate -> model.add -> group.add, duplicate raises, maps updated together, generated idx never "
                     "collides, unique parameters raise); BackRef reset-then-fill once per (referrer, idx-param, name) with dangling targets "
                     "skipped; find-or-add stages; every link_external call site reports lookup errors and parameter links fail setup; the "
                     "first lookup by idx in each link method is not wrapped in a KeyError-swallowing try.",
                note="Lookup correctness for arbitrary add sequences is data dependent and declined.",
                tech="ordering/pairing on CFGs + error-discipline rule", ref="3/C19"),
    "C20": dict(cat="other",
                text="Typestate on all constructors that add config (Config -> load(rc) -> add(defaults); 28 constructors, MRO-resolved "
                     "base calls); options merged into the rc object before the first load and sections created iff absent; _add skips "
                     "loaded keys; coercion chain; malformed options raise; alternatives enforced; 55 add_extra calls use declared "
                     "fields; every shipped default keeps value and type through str -> coerce (finite, exhaustive over ~430 fields).",
                note="'Every representable value' beyond the shipped defaults is declined.",
                tech="typestate on constructors + table agreement + finite evaluation over shipped defaults", ref="3/C20"),
})

NOT_YET = {}

NA = {
    "C07": "Convergence of simulated trajectories to a closed-form / matrix-exponential reference as h->0 is a numerical "
           "statement about executions; no clause of it is visible in the shape of the code. Its structural preconditions "
           "(integrator weights, mass matrix) are decided under C04 and C02/C03.",
}


# clauses added by the second-generation rules (effects engine, universality, resolved normal form, interpretation); appended to the texts
ADD = {
    "C01": "Apply-to-all loops of residual assembly and per-unit conversion have no early exit, no bypassing return, no value leaking between iterations.",
    "C02": "The runtime helpers called by generated code (thirdparty/npfunc) are pure (no shared state, output buffers allocated per call); an already "
           "imported pycode package is reloaded before use.",
    "C03": "Universality of the Jacobian assembly loops (including the return that would bypass them).",
    "C04": "The clipping of the step is decided by interpreting calc_h on every ordering of (proposed step, time to tf, time to the next event): "
           "h == max(min(...), 0).",
    "C05": "Equations switched on dae_t (PQ) give the same injection in their power-flow and time-domain forms at the hand-over point (symbolic).",
    "C06": "Exactness typing: times that are later compared with == are copied into the clock (recorded cut time), not recomputed as t + (target - t).",
    "C08": "The Jacobians are re-evaluated on every path from EIG.run to calc_As (call graph to System.j_update); swap targets of the reordering are "
           "filtered against the zero-time-constant states (dataflow, any idiom); the setter used by sweep writes dae.Tf unconditionally.",
    "C09": "Delay / Average / Derivative / Sampling are interpreted over every ADVANCE/REPEAT/REWIND call pattern up to 5 (6) calls on symbolic samples "
           "and compared with their definitions on the accepted history.",
    "C10": "Any np.arange/+/* allocation is abstracted to an arithmetic progression (violations need a concrete non-tiling witness); positional reads of "
           "borrowed parameters only without an indexer.",
    "C11": "Group.set delegates to Model.set; DAE.reset returns to the constructed state (all counters of the array/counter table, time sentinel); "
           "parameters borrowed from per-unit-flagged sources are re-linked after the conversion; dae.Tf/Teye writes are unconditional and cover every state.",
    "C12": "Dataflow of bus-off propagation: not-found sentinel filtered element-wise, pending changes accumulated, all-matches lookup merges every model; "
           "slack counter per island; the re-check after events is gated by nothing but event-fired and check_conn.",
    "C13": "MATPOWER text reader: the section-end regex cannot swallow a data row; conditional exports; record loops carry no value from one record to the next.",
    "C14": "Effect analysis over the resolved call graph: load_ss / fix_view_arrays / init_resume write no array content (init_resume: only the clock).",
    "C15": "Nothing that writes x/y/t runs between the acceptance of a step and dae.store() (effect analysis); csv replay: row pointer and clock advance "
           "together; cached views are refreshed by their readers on the off-load path; header and body of the csv export share one index list.",
    "C17": "The convergence measure is NaN-propagating (no builtin max/min, fmax, nanmax on the residual slice); exit code is only ever added to; module entry "
           "point propagates the exit status; EIG refuses a system without states on every path.",
    "C18": "Blocks elaborated with numeric time constants: the number reaches State.t_const.",
    "C19": "BackRef reset is unconditional; universality of the reference-collection loops.",
    "C20": "Cached dict view is refreshed by the readers that validate or export; the rc parser object is fresh per load; options overwrite the file "
           "unconditionally; nothing but the name (and the user dictionary) is passed to Config() before load().",
}


# clauses added by the third generation (evaluated rules, truth-table rules, typestate) -- DESIGN.md sections 2 (E11 II, E12), 3.x, 9
ADD3 = {
    "C02": "Model.refresh_inputs_arg binds all eight argument tables by name (evaluated on a stand-in model).",
    "C03": "System.store_sparse_pattern evaluated with stand-in models: template == variable positions (zeros) + constant positions (values) + gy diagonal.",
    "C04": "calc_h is interpreted for resumed runs too; a rejected step moves the clock back only if it was advanced for that attempt (CFG path or "
           "typestate attribute set only by the advance helper) and re-advances before the retry; restore/acceptance of ImplicitIter.step decided on "
           "truth tables of the enclosing conditions.",
    "C05": "Accumulating initialisers (v_str_add) start from cleared arrays on every initialisation (whole-array clear on every path of TDS.init to System.init); "
           "every bus injection of a model with a connection status vanishes identically for u = 0 (symbolic, internal algebraic variables eliminated); "
           "discrete components and blocks refer to the objects registered in their model (object identity on the elaborated models).",
    "C06": "One do_switch call hands a model to switch_action at most once; the schedule dict is created where it is filled, in sorted order; the event "
           "pointer is re-assigned after every rebuild of the schedule before it is read; only System.store_switch_times writes the schedule.",
    "C11": "Model.alter / GroupBase.alter / ModelData.as_dict evaluated over the kinds of altered / exported object with symbolic value and coefficient.",
    "C13": "NumParam.add corrections are independent of the numeric representation (int/float/NumPy scalar); system-level quantities set by the case "
           "readers must be carried by the native formats (open finding: xlsx/json do not); the star branches of a three-winding transformer read their own winding record.",
    "C14": "init()/init_resume() dispatch decided on the truth table of the enclosing conditions; save_ss writes no array content (effect analysis); re-pointing of "
           "variable views skips models without addresses (evaluated).",
    "C08": "EIG._store_stats, find_zero_states and _reorder evaluated with NumPy on stand-ins: the counts partition complex eigenvalues by the real part, "
           "the zero-state partition is re-read from dae.Tf on every call, the state names follow the rows/columns of the reordered matrix for every placement "
           "of 1..3 zero states among 6; every sweep point passes a call that must-reach System.j_update; wherever `mu` is replaced the derived statistics "
           "and participation factors are recomputed; every attribute calc_As assigns is assigned on every path.",
    "C16": "CCS triplet mapping and the linsolve switch decided by evaluation / truth table instead of statement patterns.",
    "C17": "run(cli=True) with its multi-case runners evaluated over outcome classes (single, pool, worker processes in batches, file not found): exit "
           "code non-zero iff a case failed; every success flag the property lists (busted, test_ok) is consulted with a refusing branch on every path to "
           "the dependent work of TDS.run and EIG; the operand of the stability criterion is established by TDS.init whenever the criterion is enabled; "
           "library-solver failure exceptions (contract table) are turned into converged = False; the Newton increment already applied to the state is "
           "NaN-tested before the success verdict; no call site discards the status of a failure-status function.",
    "C19": "GroupBase.get_next_idx, DeviceFinder.find_or_add and ModelData.add evaluated over registries with collisions / rejecting parameters: generated "
           "idx never registered, loop terminates, explicit idx kept iff free, helper device found or added once, rejected device leaves no trace; an "
           "unregistered idx raises whatever allow_none is; Group.get returns the values the devices hold for any mixture of numbers and strings; group find_idx "
           "answers from whichever model holds the field.",
    "C20": "Constants assigned by the program to an enumerated configuration field are declared alternatives of the declared type; the per-element work of an "
           "apply-to-all loop has not slipped out of the loop (a call after the loop that uses its loop variable), applied to the check of every model class.",
}


def main():
    for pid, extra in ADD.items():
        if pid in CLAIMED and extra not in CLAIMED[pid]["text"]:
            CLAIMED[pid]["text"] = CLAIMED[pid]["text"] + " Second generation: " + extra
    for pid, extra in ADD3.items():
        if pid in CLAIMED and extra not in CLAIMED[pid]["text"]:
            CLAIMED[pid]["text"] = CLAIMED[pid]["text"] + " Third generation: " + extra
            if "evaluat" in extra and "evaluation of small repository functions" not in CLAIMED[pid]["tech"]:
                CLAIMED[pid]["tech"] = CLAIMED[pid]["tech"] + " + evaluation of small repository functions over stand-in objects (engine/tinyexec)"
    props = [json.loads(l) for l in open(os.path.join(HERE, "properties.jsonl"))]
    checks = []
    na = []
    for p in props:
        pid = p["id"]
        if pid in CLAIMED:
            c = CLAIMED[pid]
            checks.append({
                "property_id": pid,
                "quick_cmd": "./vcheck %s --tier quick" % pid,
                "thorough_cmd": "./vcheck %s --tier thorough" % pid,
                "evidence_file": "evidence/%s.json" % pid,
                "replay_cmd_template": "./vcheck %s --replay {path}" % pid,
                "engine": "vcheck",
                "level_claimed": {"category": c["cat"], "text": c["text"], "design_ref": "DESIGN.md " + c["ref"]},
                "level_note": c["note"],
                "technique": c["tech"],
            })
        elif pid in NA:
            na.append({"property_id": pid, "reason": NA[pid]})
        else:
            na.append({"property_id": pid, "reason": NOT_YET.get(
                pid, "checker not built yet in this round (planned, see DESIGN.md section 3); not claimed until it exists")})
    man = {
        "version": 1,
        "setup_cmd": "/venv/bin/python -c \"import sympy, networkx, jsonschema, andes\" && /venv/bin/python -m compileall -q engine rules >/dev/null; true",
        "hooks": {
            "guard": "ANDES_VERIF",
            "enable": "no source hooks are needed: every check is static (reads /repo's working tree; elaborates declarative "
                      "model constructors; runs the code generator as a build step into a scratch dir)",
            "baseline_off_cmd": "cd /repo && /venv/bin/python -m pytest -ra -q -p no:cacheprovider --timeout=900 --continue-on-collection-errors",
            "source_commits": [],
            "add_only": True,
        },
        "engines": [
            {"name": "vcheck", "path": "vcheck", "serves_properties": sorted(CLAIMED),
             "kind_free_text": "static analysis: stdlib ast + hand-built statement CFG (networkx) + structural AST patterns over a resolved "
                               "normal form (alias copy propagation, rename-back of locals); effect analysis over a receiver-resolved call graph; "
                               "DSL front-ends + sympy normal forms for the embedded equation language and generated code; small abstract "
                               "interpreters (order types, call-order patterns) reading the AST"},
        ],
        "checks": checks,
        "not_applicable": na,
        "notes": "Exit protocol: 0 held / 1 VIOLATION line / 2 ANALYSIS-ERROR (anchor vanished, never a silent pass). "
                 "Known findings: known_findings.json.",
    }
    with open(os.path.join(HERE, "MANIFEST.json"), "w") as f:
        json.dump(man, f, indent=1)
        f.write("\n")


if __name__ == "__main__":
    main()
